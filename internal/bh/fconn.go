package bh

import (
	"errors"
	"net"
	"sync"
	"time"

	"github.com/256dpi/gomqtt/packet"
	"github.com/256dpi/gomqtt/transport"
)

// ErrInjected is the error returned by an injected connection fault.
var ErrInjected = errors.New("injected connection fault")

// Fault describes one connection fault: at the K-th (1-based) Send or Receive
// on this connection either fail before the packet passes (packet dropped,
// carrier closed, error returned) or after (packet passes, carrier closed).
type Fault struct {
	Dir  string // "send" | "recv"
	K    int
	When string // "before" | "after"
}

func (f Fault) String() string {
	if f.K == 0 {
		return "none"
	}
	return f.Dir + "#" + itoa(f.K) + "/" + f.When
}

func itoa(i int) string {
	if i == 0 {
		return "0"
	}
	neg := i < 0
	if neg {
		i = -i
	}
	var b []byte
	for i > 0 {
		b = append([]byte{byte('0' + i%10)}, b...)
		i /= 10
	}
	if neg {
		b = append([]byte{'-'}, b...)
	}
	return string(b)
}

// FConn wraps a transport.Conn: logs, asserts before sends, injects faults.
type FConn struct {
	Inner transport.Conn
	Name  string
	Log   *Log
	// SendKind/RecvKind are the event kinds logged ("bsend"/"brecv" for the
	// broker side, "csend"/"crecv" for the client library side).
	SendKind, RecvKind string

	// PreSend runs before a packet is forwarded (online assertions).
	PreSend func(pkt packet.Generic)
	// PostRecv runs after a packet was received, before it is returned.
	PostRecv func(pkt packet.Generic)
	// CloseDelay keeps Close from returning for that long after the carrier has
	// been closed (a transport whose close takes time: TLS, WebSocket handshake).
	CloseDelay time.Duration

	mu      sync.Mutex
	faults  []Fault
	nsend   int
	nrecv   int
	tripped bool
	// SendErrAt / RecvErrAt make the k-th call fail WITHOUT touching the
	// carrier (pure API error), used by the client-library checks.
	closedOnce sync.Once
	closedCh   chan struct{}
}

// NewFConn wraps inner.
func NewFConn(inner transport.Conn, name string, log *Log, sendKind, recvKind string) *FConn {
	return &FConn{Inner: inner, Name: name, Log: log, SendKind: sendKind, RecvKind: recvKind, closedCh: make(chan struct{})}
}

// AddFault schedules a fault.
func (c *FConn) AddFault(f Fault) {
	c.mu.Lock()
	c.faults = append(c.faults, f)
	c.mu.Unlock()
}

// Tripped reports whether an injected fault has fired.
func (c *FConn) Tripped() bool {
	c.mu.Lock()
	defer c.mu.Unlock()
	return c.tripped
}

// Counts returns the number of Send and Receive calls so far.
func (c *FConn) Counts() (int, int) {
	c.mu.Lock()
	defer c.mu.Unlock()
	return c.nsend, c.nrecv
}

func (c *FConn) match(dir string, k int) (Fault, bool) {
	for _, f := range c.faults {
		if f.Dir == dir && f.K == k {
			c.tripped = true
			return f, true
		}
	}
	return Fault{}, false
}

func (c *FConn) Send(pkt packet.Generic, async bool) error {
	c.mu.Lock()
	c.nsend++
	f, hit := c.match("send", c.nsend)
	c.mu.Unlock()
	if hit && f.When == "before" {
		c.Log.Add(c.Name, "fault", pkt, "send dropped, connection cut before "+c.SendKind)
		_ = c.Inner.Close()
		return ErrInjected
	}
	if c.PreSend != nil {
		c.PreSend(pkt)
	}
	c.Log.Add(c.Name, c.SendKind, pkt, "")
	err := c.Inner.Send(pkt, async)
	if hit && f.When == "after" {
		c.Log.Add(c.Name, "fault", pkt, "connection cut after "+c.SendKind)
		_ = c.Inner.Close() // flushes what was buffered, then closes
		return ErrInjected
	}
	if err != nil {
		c.Log.Add(c.Name, c.SendKind+"-error", pkt, err.Error())
	}
	return err
}

func (c *FConn) Receive() (packet.Generic, error) {
	c.mu.Lock()
	c.nrecv++
	f, hit := c.match("recv", c.nrecv)
	c.mu.Unlock()
	if hit && f.When == "before" {
		c.Log.Add(c.Name, "fault", nil, "connection cut before "+c.RecvKind+" #"+itoa(f.K))
		_ = c.Inner.Close()
		return nil, ErrInjected
	}
	pkt, err := c.Inner.Receive()
	if err != nil {
		c.Log.Add(c.Name, c.RecvKind+"-error", nil, err.Error())
		return nil, err
	}
	c.Log.Add(c.Name, c.RecvKind, pkt, "")
	if c.PostRecv != nil {
		c.PostRecv(pkt)
	}
	if hit && f.When == "after" {
		c.Log.Add(c.Name, "fault", pkt, "connection cut after "+c.RecvKind)
		_ = c.Inner.Close()
	}
	return pkt, nil
}

func (c *FConn) Close() error {
	c.Log.Add(c.Name, "close", nil, "")
	c.closedOnce.Do(func() { close(c.closedCh) })
	err := c.Inner.Close()
	if c.CloseDelay > 0 {
		time.Sleep(c.CloseDelay)
	}
	return err
}

// CloseCalled is closed once Close has been called on the wrapper.
func (c *FConn) CloseCalled() <-chan struct{} { return c.closedCh }

func (c *FConn) SetReadLimit(limit int64)             { c.Inner.SetReadLimit(limit) }
func (c *FConn) SetReadTimeout(timeout time.Duration) { c.Inner.SetReadTimeout(timeout) }
func (c *FConn) SetMaxWriteDelay(delay time.Duration) { c.Inner.SetMaxWriteDelay(delay) }
func (c *FConn) LocalAddr() net.Addr                  { return c.Inner.LocalAddr() }
func (c *FConn) RemoteAddr() net.Addr                 { return c.Inner.RemoteAddr() }

var _ transport.Conn = (*FConn)(nil)
