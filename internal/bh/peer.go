package bh

import (
	"errors"
	"fmt"
	"io"
	"sync"
	"time"

	"github.com/256dpi/gomqtt/packet"

	"verif/internal/ref"
	"verif/internal/wire"
)

// ErrTimeout is returned when a peer waited too long (watchdog, not a verdict).
var ErrTimeout = errors.New("peer: timed out waiting")

// Peer is a scripted raw-protocol endpoint. It writes packets with the
// reference encoder and parses what it reads with the reference decoder, so
// it shares no packet objects and no codec with the system under test.
type Peer struct {
	Name string
	End  *wire.End
	Log  *Log
	// SendKind/RecvKind are event kinds ("psend"/"precv").
	SendKind, RecvKind string

	// AutoAck: acknowledge inbound PUBLISH/PUBREL like a well-behaved client
	// (QoS1 -> PUBACK, QoS2 -> PUBREC, PUBREL -> PUBCOMP) from the reader.
	AutoAck bool
	// AutoReply, when set, is consulted for every received packet (reader
	// goroutine); returned packets are written in order.
	AutoReply func(pkt packet.Generic) []packet.Generic

	mu     sync.Mutex
	cond   *sync.Cond
	queue  []packet.Generic // not yet consumed by Next
	all    []packet.Generic // everything received
	eof    bool
	rerr   error
	wmu    sync.Mutex
	done   chan struct{}
	badHex string
}

// NewPeer starts the reader for an end.
func NewPeer(name string, end *wire.End, log *Log) *Peer {
	p := &Peer{Name: name, End: end, Log: log, SendKind: "psend", RecvKind: "precv", done: make(chan struct{})}
	p.cond = sync.NewCond(&p.mu)
	return p
}

// Start launches the reader; AutoAck/AutoReply must be configured before.
func (p *Peer) Start() *Peer {
	go p.reader()
	return p
}

func (p *Peer) reader() {
	defer close(p.done)
	var buf []byte
	tmp := make([]byte, 65536)
	for {
		// parse as many packets as are complete
		for {
			hd, err := ref.ParseHeader(buf)
			if err == ref.ErrShort {
				break
			}
			if err != nil || len(buf) < hd.HL+hd.RL {
				if err != nil {
					p.fail(fmt.Errorf("peer: malformed header from the system under test: %v", err), buf)
					return
				}
				break
			}
			total := hd.HL + hd.RL
			pkt, err := ref.Decode(buf[:total])
			if err != nil {
				p.fail(fmt.Errorf("peer: the system under test sent a packet the reference decoder rejects: %v", err), buf[:total])
				return
			}
			buf = buf[total:]
			p.Log.Add(p.Name, p.RecvKind, pkt, "")
			var replies []packet.Generic
			if p.AutoAck {
				switch v := pkt.(type) {
				case *packet.Publish:
					if v.Message.QOS == 1 {
						replies = append(replies, &packet.Puback{ID: v.ID})
					} else if v.Message.QOS == 2 {
						replies = append(replies, &packet.Pubrec{ID: v.ID})
					}
				case *packet.Pubrel:
					replies = append(replies, &packet.Pubcomp{ID: v.ID})
				}
			}
			if p.AutoReply != nil {
				replies = append(replies, p.AutoReply(pkt)...)
			}
			p.mu.Lock()
			p.queue = append(p.queue, pkt)
			p.all = append(p.all, pkt)
			p.cond.Broadcast()
			p.mu.Unlock()
			for _, rp := range replies {
				_ = p.Send(rp)
			}
		}
		n, err := p.End.Read(tmp)
		buf = append(buf, tmp[:n]...)
		if err != nil {
			if len(buf) > 0 && n == 0 {
				// leftover partial packet at end of stream is noted
				p.mu.Lock()
				p.badHex = fmt.Sprintf("%x", buf)
				p.mu.Unlock()
			}
			p.mu.Lock()
			p.eof = true
			p.rerr = err
			p.cond.Broadcast()
			p.mu.Unlock()
			p.Log.Add(p.Name, "peer-eof", nil, err.Error())
			return
		}
	}
}

func (p *Peer) fail(err error, raw []byte) {
	p.mu.Lock()
	p.eof = true
	p.rerr = err
	p.badHex = fmt.Sprintf("%x", raw)
	p.cond.Broadcast()
	p.mu.Unlock()
	p.Log.Add(p.Name, "peer-protocol-error", nil, err.Error())
}

// ProtocolError returns a non-nil error if the system under test sent bytes
// the reference decoder rejects.
func (p *Peer) ProtocolError() error {
	p.mu.Lock()
	defer p.mu.Unlock()
	if p.rerr != nil && p.rerr != io.EOF && p.badHex != "" && p.rerr != wire.ErrClosed {
		return fmt.Errorf("%v (bytes %s)", p.rerr, p.badHex)
	}
	return nil
}

// Send writes a packet (reference encoding).
func (p *Peer) Send(pkt packet.Generic) error {
	b, err := ref.Encode(pkt)
	if err != nil {
		return err
	}
	p.wmu.Lock()
	defer p.wmu.Unlock()
	p.Log.Add(p.Name, p.SendKind, pkt, "")
	_, err = p.End.Write(b)
	return err
}

// SendRaw writes raw bytes.
func (p *Peer) SendRaw(b []byte, note string) error {
	p.wmu.Lock()
	defer p.wmu.Unlock()
	p.Log.Add(p.Name, p.SendKind+"-raw", nil, note)
	_, err := p.End.Write(b)
	return err
}

// Next returns the next unconsumed packet, io.EOF after the stream ended, or
// ErrTimeout when the watchdog fired.
func (p *Peer) Next(d time.Duration) (packet.Generic, error) {
	deadline := time.Now().Add(d)
	timer := time.AfterFunc(d, func() { p.mu.Lock(); p.cond.Broadcast(); p.mu.Unlock() })
	defer timer.Stop()
	p.mu.Lock()
	defer p.mu.Unlock()
	for {
		if len(p.queue) > 0 {
			pkt := p.queue[0]
			p.queue = p.queue[1:]
			return pkt, nil
		}
		if p.eof {
			return nil, io.EOF
		}
		if !time.Now().Before(deadline) {
			return nil, ErrTimeout
		}
		p.cond.Wait()
	}
}

// WaitFor consumes packets until match returns true (returns that packet);
// packets that do not match stay recorded in All().
func (p *Peer) WaitFor(d time.Duration, match func(packet.Generic) bool) (packet.Generic, error) {
	deadline := time.Now().Add(d)
	for {
		rem := time.Until(deadline)
		if rem <= 0 {
			return nil, ErrTimeout
		}
		pkt, err := p.Next(rem)
		if err != nil {
			return nil, err
		}
		if match(pkt) {
			return pkt, nil
		}
	}
}

// WaitEOF waits until the connection was closed by the other side.
func (p *Peer) WaitEOF(d time.Duration) bool {
	select {
	case <-p.done:
		return true
	case <-time.After(d):
		return false
	}
}

// EOF reports whether the stream has ended.
func (p *Peer) EOF() bool {
	p.mu.Lock()
	defer p.mu.Unlock()
	return p.eof
}

// All returns everything received so far.
func (p *Peer) All() []packet.Generic {
	p.mu.Lock()
	defer p.mu.Unlock()
	return append([]packet.Generic(nil), p.all...)
}

// Count returns the number of packets received so far.
func (p *Peer) Count() int {
	p.mu.Lock()
	defer p.mu.Unlock()
	return len(p.all)
}

// Close closes the peer's end of the connection.
func (p *Peer) Close() {
	p.Log.Add(p.Name, "peer-close", nil, "")
	_ = p.End.Close()
}

// WaitCond waits until pred holds on everything received so far.
func (p *Peer) WaitCond(d time.Duration, pred func(all []packet.Generic) bool) bool {
	deadline := time.Now().Add(d)
	timer := time.AfterFunc(d, func() { p.mu.Lock(); p.cond.Broadcast(); p.mu.Unlock() })
	defer timer.Stop()
	p.mu.Lock()
	defer p.mu.Unlock()
	for {
		if pred(p.all) {
			return true
		}
		if p.eof || !time.Now().Before(deadline) {
			return false
		}
		p.cond.Wait()
	}
}
