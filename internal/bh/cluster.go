package bh

import (
	"fmt"
	"strings"
	"time"

	"github.com/256dpi/gomqtt/packet"
)

// MarkerTopic is the topic every cluster member subscribes to at QoS 1; the
// sync client publishes one QoS 0 and one QoS 1 marker to it (MemoryBackend
// keeps two FIFO queues per session, chosen by the publish QoS).
const MarkerTopic = "m/all"

// Cluster is a broker with named well-behaved peers and a sync client.
type Cluster struct {
	B       *Broker
	Peers   map[string]*Peer
	Sync    *Peer
	cursor  map[string]int
	markerN int
	nextID  map[string]packet.ID
}

// NewCluster starts a broker and its sync client.
func NewCluster() (*Cluster, error) { return NewClusterWith(nil) }

// NewClusterWith lets the caller configure the broker before any connection exists.
func NewClusterWith(prep func(b *Broker)) (*Cluster, error) {
	c := &Cluster{B: NewBroker(), Peers: map[string]*Peer{}, cursor: map[string]int{}, nextID: map[string]packet.ID{}}
	if prep != nil {
		prep(c.B)
	}
	p, _, ca, err := c.B.Connect("sync", ConnectOpts{ID: "sync-client", Clean: true, AutoAck: true}, nil)
	if err != nil || ca == nil || ca.ReturnCode != 0 {
		return nil, fmt.Errorf("sync client could not connect: %v %v", ca, err)
	}
	c.Sync = p
	return c, nil
}

// ID returns the next packet id for a peer's own requests.
func (c *Cluster) ID(name string) packet.ID {
	c.nextID[name]++
	if c.nextID[name] == 0 {
		c.nextID[name] = 1
	}
	return c.nextID[name]
}

// Join connects a peer (client id = name), subscribes it to the marker topic.
func (c *Cluster) Join(name string, clean bool, will *packet.Message) (*Peer, *packet.Connack, error) {
	conn := name
	if old := c.Peers[name]; old != nil {
		conn = fmt.Sprintf("%s#%d", name, c.B.Log.Len())
	}
	p, _, ca, err := c.B.Connect(conn, ConnectOpts{ID: name, Clean: clean, AutoAck: true, Will: will}, nil)
	if err != nil {
		return p, nil, err
	}
	if ca == nil || ca.ReturnCode != 0 {
		return p, ca, fmt.Errorf("join %s: connack %v", name, ca)
	}
	c.Peers[name] = p
	c.cursor[name] = 0
	id := c.ID(name)
	if err := p.Send(&packet.Subscribe{ID: id, Subscriptions: []packet.Subscription{{Topic: MarkerTopic, QOS: 1}}}); err != nil {
		return p, ca, err
	}
	if _, err := p.WaitFor(Watchdog, func(g packet.Generic) bool { s, ok := g.(*packet.Suback); return ok && s.ID == id }); err != nil {
		return p, ca, fmt.Errorf("join %s: no SUBACK for the marker subscription: %v", name, err)
	}
	return p, ca, nil
}

// Leave removes a peer from the fence set (call after it disconnected).
func (c *Cluster) Leave(name string) { delete(c.Peers, name) }

func isMarker(g packet.Generic, tag string) bool {
	p, ok := g.(*packet.Publish)
	return ok && p.Message.Topic == MarkerTopic && string(p.Message.Payload) == tag
}

// Fence publishes the two markers and waits until every joined peer has
// received both: everything queued for them before the markers has arrived.
func (c *Cluster) Fence() error {
	c.markerN++
	t0 := fmt.Sprintf("MK%d/q0", c.markerN)
	t1 := fmt.Sprintf("MK%d/q1", c.markerN)
	if err := c.Sync.Send(&packet.Publish{Message: packet.Message{Topic: MarkerTopic, Payload: []byte(t0), QOS: 0}}); err != nil {
		return err
	}
	id := c.ID("sync")
	if err := c.Sync.Send(&packet.Publish{ID: id, Message: packet.Message{Topic: MarkerTopic, Payload: []byte(t1), QOS: 1}}); err != nil {
		return err
	}
	if _, err := c.Sync.WaitFor(Watchdog, func(g packet.Generic) bool { a, ok := g.(*packet.Puback); return ok && a.ID == id }); err != nil {
		return fmt.Errorf("fence: marker not acknowledged: %v", err)
	}
	for name, p := range c.Peers {
		ok := p.WaitCond(Watchdog, func(all []packet.Generic) bool {
			a, b := false, false
			for i := len(all) - 1; i >= 0 && !(a && b); i-- {
				if isMarker(all[i], t0) {
					a = true
				}
				if isMarker(all[i], t1) {
					b = true
				}
			}
			return a && b
		})
		if !ok {
			return fmt.Errorf("fence: peer %s did not receive both markers (eof=%t)", name, p.EOF())
		}
	}
	return nil
}

// Drain returns the PUBLISH packets a peer received since the last Drain,
// markers excluded.
func (c *Cluster) Drain(name string) []*packet.Publish {
	p := c.Peers[name]
	if p == nil {
		return nil
	}
	all := p.All()
	var out []*packet.Publish
	for _, g := range all[c.cursor[name]:] {
		if pub, ok := g.(*packet.Publish); ok && !strings.HasPrefix(string(pub.Message.Payload), "MK") {
			out = append(out, pub)
		}
	}
	c.cursor[name] = len(all)
	return out
}

// Shutdown ends the broker.
func (c *Cluster) Shutdown() {
	for _, p := range c.Peers {
		p.Close()
	}
	c.Sync.Close()
	c.B.Shutdown()
}

// AwaitAck waits for the acknowledgement of a request with the given id.
func AwaitAck(p *Peer, kind packet.Type, id packet.ID) (packet.Generic, error) {
	return p.WaitFor(Watchdog, func(g packet.Generic) bool {
		if g.Type() != kind {
			return false
		}
		gid, _ := packet.GetID(g)
		return gid == id
	})
}

var _ = time.Second
