package bh

import (
	"errors"
	"fmt"
	"math/rand"
	"runtime"
	"sync"
	"time"

	"github.com/256dpi/gomqtt/broker"
	"github.com/256dpi/gomqtt/packet"
)

// ErrHook is returned by an injected backend failure.
var ErrHook = errors.New("injected backend failure")

// ClientInfo is what the monitor knows about one broker.Client.
type ClientInfo struct {
	Client      *broker.Client
	Name        string // name of the connection (FConn.Name)
	ID          string
	Clean       bool
	SetupOK     bool
	SetupSeq    int64 // event seq of the Setup return
	Resumed     bool
	Terminated  int
	TermEntered bool // Terminate has been entered (the inner call may be in progress)
	TermSeq     int64
	Session     broker.Session
	Publishes   []*packet.Message // messages handed to Backend.Publish on behalf of this client (copies)
	PubSeqs     []int64
	PubErrs     []error          // outcome of each of those calls (nil = the backend took the message)
	Received    []packet.Generic // packets the broker reports as received (Log PacketReceived)
	Disconnect  bool             // broker logged a received DISCONNECT
	Hooks       []string         // hook trace
}

// AckMode controls when the Ack closure of Publish is invoked.
type AckMode int

const (
	AckSync  AckMode = iota // inside the inner call (MemoryBackend default)
	AckLate                 // after the inner call returned, from another goroutine
	AckNever                // never
	// AckInNext: the acknowledgement of a message is held until the backend is
	// inside the Publish call for the next message, then fired from another
	// goroutine and awaited before that call goes on (FlushHeld fires the rest)
	AckInNext
)

// HookFault makes the K-th call (1-based, counted per hook name over the
// whole backend) of a hook fail; Before=true fails instead of the inner call,
// otherwise after it.
type HookFault struct {
	Hook   string
	K      int
	Before bool
}

// MonBackend implements broker.Backend around a real MemoryBackend.
type MonBackend struct {
	Inner *broker.MemoryBackend
	Ev    *Log

	AckMode AckMode
	Perturb *rand.Rand // when set: yield / sleep 0-200µs around inner calls
	pmu     sync.Mutex

	// OnHook is called (outside any lock) at "call"/"return" of every hook.
	OnHook func(hook, phase string, c *broker.Client)
	// OnSetupReturn is called after the inner Setup returned successfully.
	OnSetupReturn func(ci *ClientInfo)
	// SlowPublishTopic/SlowPublishDelay: Publish calls for that topic pause before
	// they reach the inner backend (widens the window between a received PUBREL
	// and the backend's acknowledgement).
	SlowPublishTopic string
	SlowPublishDelay time.Duration
	// SlowTerminate delays Terminate (KillTimeout scenarios).
	SlowTerminate time.Duration
	// LateGate, when set, holds every late acknowledgement until it is closed.
	LateGate chan struct{}
	// CloseAt: call Inner.Close at the N-th hook call overall (0 = never).
	CloseAt int
	// CloseAfterAuth: call Inner.Close synchronously when the K-th Authenticate
	// call has returned from the inner backend (the client is not registered yet,
	// so Close does not wait for it); its Setup call comes after the shutdown.
	CloseAfterAuth int
	// SetupAfterClose lists clients whose inner Setup call began after a Close
	// fired by this monitor had returned and nevertheless succeeded.
	SetupAfterClose []string
	closeReturned   bool
	authReturns     int

	mu      sync.Mutex
	clients map[*broker.Client]*ClientInfo
	order   []*ClientInfo
	calls   map[string]int
	ncalls  int
	faults  []HookFault
	names   map[interface{}]string // conn -> name
	lateMu  sync.Mutex
	lateN   int
	// AckInvoked records (client, packet id unknown here) -> seq of ack invocation, in order
	Acks []AckEvent

	heldMu sync.Mutex
	held   []func() // AckInNext: acknowledgements waiting for the next Publish call
}

// AckEvent records the invocation of a Publish ack closure.
type AckEvent struct {
	Client *broker.Client
	Msg    *packet.Message
	Seq    int64
}

// NewMonBackend wraps a fresh MemoryBackend.
func NewMonBackend(log *Log) *MonBackend {
	m := &MonBackend{Inner: broker.NewMemoryBackend(), Ev: log, clients: map[*broker.Client]*ClientInfo{}, calls: map[string]int{}, names: map[interface{}]string{}}
	return m
}

// AddFault schedules a backend failure.
func (m *MonBackend) AddFault(f HookFault) {
	m.mu.Lock()
	m.faults = append(m.faults, f)
	m.mu.Unlock()
}

// Info returns the record for a client (created on first sight).
func (m *MonBackend) Info(c *broker.Client) *ClientInfo {
	m.mu.Lock()
	defer m.mu.Unlock()
	return m.info(c)
}

func (m *MonBackend) info(c *broker.Client) *ClientInfo {
	ci := m.clients[c]
	if ci == nil {
		ci = &ClientInfo{Client: c}
		if fc, ok := c.Conn().(*FConn); ok {
			ci.Name = fc.Name
		}
		m.clients[c] = ci
		m.order = append(m.order, ci)
	}
	return ci
}

// Clients returns all client records in order of first appearance.
func (m *MonBackend) Clients() []*ClientInfo {
	m.mu.Lock()
	defer m.mu.Unlock()
	return append([]*ClientInfo(nil), m.order...)
}

// ByName returns the records of the clients whose connection has this name.
func (m *MonBackend) ByName(name string) *ClientInfo {
	m.mu.Lock()
	defer m.mu.Unlock()
	for _, ci := range m.order {
		if ci.Name == name {
			return ci
		}
	}
	return nil
}

// Snapshot copies a ClientInfo under the monitor lock.
func (m *MonBackend) Snapshot(ci *ClientInfo) ClientInfo {
	m.mu.Lock()
	defer m.mu.Unlock()
	cp := *ci
	cp.Publishes = append([]*packet.Message(nil), ci.Publishes...)
	cp.PubSeqs = append([]int64(nil), ci.PubSeqs...)
	cp.PubErrs = append([]error(nil), ci.PubErrs...)
	cp.Received = append([]packet.Generic(nil), ci.Received...)
	cp.Hooks = append([]string(nil), ci.Hooks...)
	return cp
}

// WaitLate waits for late acks still in flight.
func (m *MonBackend) WaitLate() {
	for {
		m.lateMu.Lock()
		n := m.lateN
		m.lateMu.Unlock()
		if n == 0 {
			return
		}
		time.Sleep(50 * time.Microsecond)
	}
}

// FlushHeld fires the acknowledgements held in AckInNext mode, each from its
// own goroutine, and waits until they have returned.
func (m *MonBackend) FlushHeld() {
	m.heldMu.Lock()
	hs := m.held
	m.held = nil
	m.heldMu.Unlock()
	var wg sync.WaitGroup
	for _, f := range hs {
		wg.Add(1)
		go func(f func()) { defer wg.Done(); f() }(f)
	}
	wg.Wait()
}

func (m *MonBackend) lateAdd(d int) {
	m.lateMu.Lock()
	m.lateN += d
	m.lateMu.Unlock()
}

func (m *MonBackend) perturb() {
	if m.Perturb == nil {
		return
	}
	m.pmu.Lock()
	x := m.Perturb.Intn(8)
	d := time.Duration(m.Perturb.Intn(200)) * time.Microsecond
	m.pmu.Unlock()
	switch {
	case x < 3:
		runtime.Gosched()
	case x == 3:
		time.Sleep(d)
	}
}

// enter records a hook call; returns an injected error to return before/after.
func (m *MonBackend) enter(hook string, c *broker.Client) (before, after error) {
	m.mu.Lock()
	m.calls[hook]++
	m.ncalls++
	k := m.calls[hook]
	n := m.ncalls
	ci := m.info(c)
	ci.Hooks = append(ci.Hooks, hook)
	for _, f := range m.faults {
		if f.Hook == hook && f.K == k {
			if f.Before {
				before = ErrHook
			} else {
				after = ErrHook
			}
		}
	}
	closeNow := m.CloseAt > 0 && n == m.CloseAt
	name := ci.Name
	m.mu.Unlock()
	m.Ev.Add(name, "hook:"+hook+":call", nil, "")
	if closeNow {
		m.Ev.Add(name, "backend-close", nil, "MemoryBackend.Close fired at hook call "+fmt.Sprint(n))
		go func() {
			m.Inner.Close(5 * time.Second)
			m.mu.Lock()
			m.closeReturned = true
			m.mu.Unlock()
		}()
		runtime.Gosched()
	}
	if m.OnHook != nil {
		m.OnHook(hook, "call", c)
	}
	m.perturb()
	return
}

func (m *MonBackend) leave(hook string, c *broker.Client, err error) int64 {
	m.perturb()
	note := ""
	if err != nil {
		note = "err=" + err.Error()
	}
	seq := m.Ev.Add(m.Info(c).Name, "hook:"+hook+":return", nil, note)
	if m.OnHook != nil {
		m.OnHook(hook, "return", c)
	}
	return seq
}

func (m *MonBackend) Authenticate(c *broker.Client, user, password string) (bool, error) {
	b, a := m.enter("Authenticate", c)
	if b != nil {
		m.leave("Authenticate", c, b)
		return false, b
	}
	ok, err := m.Inner.Authenticate(c, user, password)
	if err == nil && a != nil {
		err = a
	}
	m.mu.Lock()
	m.authReturns++
	closeNow := m.CloseAfterAuth > 0 && m.authReturns == m.CloseAfterAuth
	m.mu.Unlock()
	if closeNow {
		m.Ev.Add(m.Info(c).Name, "backend-close", nil, "MemoryBackend.Close called between this client's Authenticate and Setup")
		m.Inner.Close(5 * time.Second)
		m.mu.Lock()
		m.closeReturned = true
		m.mu.Unlock()
		m.Ev.Add(m.Info(c).Name, "backend-close:return", nil, "")
	}
	m.leave("Authenticate", c, err)
	return ok, err
}

func (m *MonBackend) Setup(c *broker.Client, id string, clean bool) (broker.Session, bool, error) {
	b, a := m.enter("Setup", c)
	m.mu.Lock()
	ci := m.info(c)
	ci.ID, ci.Clean = id, clean
	m.mu.Unlock()
	if b != nil {
		m.leave("Setup", c, b)
		return nil, false, b
	}
	m.mu.Lock()
	closedBefore := m.closeReturned
	m.mu.Unlock()
	s, resumed, err := m.Inner.Setup(c, id, clean)
	if err == nil {
		m.mu.Lock()
		ci.SetupOK, ci.Resumed, ci.Session = true, resumed, s
		if closedBefore {
			m.SetupAfterClose = append(m.SetupAfterClose, ci.Name)
		}
		m.mu.Unlock()
		if m.OnSetupReturn != nil {
			m.OnSetupReturn(ci)
		}
	}
	seq := m.leave("Setup", c, err)
	m.mu.Lock()
	ci.SetupSeq = seq
	m.mu.Unlock()
	if err == nil && a != nil {
		// the inner backend has set the client up; failing now means the
		// broker will call Terminate for it (state is already "connected")
		return nil, false, a
	}
	return s, resumed, err
}

func (m *MonBackend) Restore(c *broker.Client) error {
	b, a := m.enter("Restore", c)
	if b != nil {
		m.leave("Restore", c, b)
		return b
	}
	err := m.Inner.Restore(c)
	if err == nil && a != nil {
		err = a
	}
	m.leave("Restore", c, err)
	return err
}

func (m *MonBackend) Subscribe(c *broker.Client, subs []packet.Subscription, ack broker.Ack) error {
	b, a := m.enter("Subscribe", c)
	if b != nil {
		m.leave("Subscribe", c, b)
		return b
	}
	err := m.Inner.Subscribe(c, subs, ack)
	if err == nil && a != nil {
		err = a
	}
	m.leave("Subscribe", c, err)
	return err
}

func (m *MonBackend) Unsubscribe(c *broker.Client, topics []string, ack broker.Ack) error {
	b, a := m.enter("Unsubscribe", c)
	if b != nil {
		m.leave("Unsubscribe", c, b)
		return b
	}
	err := m.Inner.Unsubscribe(c, topics, ack)
	if err == nil && a != nil {
		err = a
	}
	m.leave("Unsubscribe", c, err)
	return err
}

func (m *MonBackend) Publish(c *broker.Client, msg *packet.Message, ack broker.Ack) error {
	b, a := m.enter("Publish", c)
	cp := msg.Copy()
	cp.Payload = append([]byte(nil), msg.Payload...)
	m.mu.Lock()
	ci := m.info(c)
	name := ci.Name
	m.mu.Unlock()
	seq := m.Ev.Add(name, "backend-publish", nil, fmt.Sprintf("topic=%q qos=%d retain=%t payload=%x", cp.Topic, cp.QOS, cp.Retain, clip(cp.Payload)))
	m.mu.Lock()
	ci.Publishes = append(ci.Publishes, cp)
	ci.PubSeqs = append(ci.PubSeqs, seq)
	ci.PubErrs = append(ci.PubErrs, nil)
	pubIdx := len(ci.PubErrs) - 1
	m.mu.Unlock()
	setErr := func(e error) {
		m.mu.Lock()
		ci.PubErrs[pubIdx] = e
		m.mu.Unlock()
	}
	if b != nil {
		setErr(b)
		m.leave("Publish", c, b)
		return b
	}
	wrapped := ack
	if ack != nil {
		logged := func() {
			s := m.Ev.Add(name, "ack-invoked", nil, fmt.Sprintf("topic=%q payload=%x", cp.Topic, clip(cp.Payload)))
			m.mu.Lock()
			m.Acks = append(m.Acks, AckEvent{Client: c, Msg: cp, Seq: s})
			m.mu.Unlock()
			ack()
			// the broker's ack callback deletes the stored packet and queues the
			// PUBACK/PUBCOMP; only now is the hand-over acknowledged
			m.Ev.Add(name, "ack-returned", nil, fmt.Sprintf("topic=%q payload=%x", cp.Topic, clip(cp.Payload)))
		}
		switch m.AckMode {
		case AckSync:
			wrapped = logged
		case AckLate:
			// accounted from the hand-over on, so that WaitLate also covers the
			// time before the inner backend gets to call the closure
			m.lateAdd(1)
			lateCalled := false
			wrapped = func() {
				lateCalled = true
				go func() {
					defer m.lateAdd(-1)
					m.perturb()
					if m.LateGate != nil {
						<-m.LateGate
					}
					time.Sleep(200 * time.Microsecond)
					logged()
				}()
			}
			defer func() {
				if !lateCalled {
					m.lateAdd(-1)
				}
			}()
		case AckNever:
			wrapped = func() {}
		case AckInNext:
			wrapped = func() {
				m.heldMu.Lock()
				m.held = append(m.held, logged)
				m.heldMu.Unlock()
			}
		}
	}
	if m.AckMode == AckInNext {
		m.FlushHeld() // acknowledgements of earlier messages arrive while this call is in progress
	}
	if m.SlowPublishDelay > 0 && cp.Topic == m.SlowPublishTopic {
		time.Sleep(m.SlowPublishDelay)
	}
	err := m.Inner.Publish(c, msg, wrapped)
	if err == nil && a != nil {
		err = a
	}
	if err != nil {
		setErr(err)
	}
	m.leave("Publish", c, err)
	return err
}

func clip(b []byte) []byte {
	if len(b) > 24 {
		return b[:24]
	}
	return b
}

func (m *MonBackend) Dequeue(c *broker.Client) (*packet.Message, broker.Ack, error) {
	b, a := m.enter("Dequeue", c)
	if b != nil {
		m.leave("Dequeue", c, b)
		return nil, nil, b
	}
	msg, ack, err := m.Inner.Dequeue(c)
	if err == nil && a != nil && msg != nil {
		err = a
	}
	m.leave("Dequeue", c, err)
	if err != nil {
		return nil, nil, err
	}
	return msg, ack, err
}

func (m *MonBackend) Terminate(c *broker.Client) error {
	m.mu.Lock()
	m.info(c).TermEntered = true
	m.mu.Unlock()
	b, a := m.enter("Terminate", c)
	if m.SlowTerminate > 0 {
		time.Sleep(m.SlowTerminate)
	}
	var err error
	if b != nil {
		err = b
	} else {
		err = m.Inner.Terminate(c)
		if err == nil && a != nil {
			err = a
		}
	}
	seq := m.leave("Terminate", c, err)
	m.mu.Lock()
	ci := m.info(c)
	ci.Terminated++
	ci.TermSeq = seq
	m.mu.Unlock()
	return err
}

// Log records the broker's own view of the connection life cycle.
func (m *MonBackend) Log(event broker.LogEvent, c *broker.Client, pkt packet.Generic, msg *packet.Message, err error) {
	m.mu.Lock()
	ci := m.info(c)
	name := ci.Name
	if event == broker.PacketReceived && pkt != nil {
		ci.Received = append(ci.Received, pkt)
		if pkt.Type() == packet.DISCONNECT {
			ci.Disconnect = true
		}
	}
	m.mu.Unlock()
	note := ""
	if err != nil {
		note = "err=" + err.Error()
	}
	if msg != nil {
		note += fmt.Sprintf(" msg{topic=%q qos=%d}", msg.Topic, msg.QOS)
	}
	m.Ev.Add(name, "log:"+string(event), pkt, note)
	m.Inner.Log(event, c, pkt, msg, err)
}

var _ broker.Backend = (*MonBackend)(nil)
