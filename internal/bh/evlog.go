// Package bh is the broker/client harness: a global sequence-numbered event
// log, a fault-injecting transport.Conn wrapper, a monitoring broker.Backend
// wrapper around the real MemoryBackend and scripted raw-protocol peers that
// speak through the independent reference codec.
package bh

import (
	"fmt"
	"os"
	"strconv"
	"strings"
	"sync"
	"time"

	"github.com/256dpi/gomqtt/packet"

	"verif/internal/ref"
)

// Event is one observation at a public boundary.
type Event struct {
	Seq  int64
	Who  string // connection / peer name
	Kind string // e.g. "bsend" (broker-side Send), "brecv", "psend" (peer wrote), "precv", "hook:Publish:call"
	Pkt  packet.Generic
	Note string
	// At is the time since the first event of the log. It is shown in witness
	// logs for the reader; no oracle reads it.
	At time.Duration
}

func (e Event) String() string {
	s := fmt.Sprintf("%d +%.3fms %s %s", e.Seq, float64(e.At)/1e6, e.Who, e.Kind)
	if e.Pkt != nil {
		s += " " + ref.Canon(e.Pkt)
	}
	if e.Note != "" {
		s += " " + e.Note
	}
	return s
}

// Log is the event log; all monitor state is updated under its mutex.
type Log struct {
	mu     sync.Mutex
	seq    int64
	events []Event
	t0     time.Time
}

// Add appends an event and returns its sequence number.
func (l *Log) Add(who, kind string, pkt packet.Generic, note string) int64 {
	pkt = ref.Clone(pkt) // the system under test mutates packets it keeps (DUP flag)
	l.mu.Lock()
	l.seq++
	s := l.seq
	now := time.Now()
	if l.t0.IsZero() {
		l.t0 = now
	}
	l.events = append(l.events, Event{Seq: s, Who: who, Kind: kind, Pkt: pkt, Note: note, At: now.Sub(l.t0)})
	l.mu.Unlock()
	return s
}

// Locked runs f under the log mutex (for monitor state shared with events).
func (l *Log) Locked(f func()) {
	l.mu.Lock()
	f()
	l.mu.Unlock()
}

// Events returns a copy of the log.
func (l *Log) Events() []Event {
	l.mu.Lock()
	defer l.mu.Unlock()
	return append([]Event(nil), l.events...)
}

// Len returns the number of events so far.
func (l *Log) Len() int {
	l.mu.Lock()
	defer l.mu.Unlock()
	return len(l.events)
}

// Dump renders the last n events (all if n <= 0).
func (l *Log) Dump(n int) []string {
	ev := l.Events()
	if v, err := strconv.Atoi(os.Getenv("VERIF_LOG_TAIL")); err == nil && v > 0 {
		n = v // debugging aid: longer witness logs
	}
	if n > 0 && len(ev) > n {
		ev = ev[len(ev)-n:]
	}
	out := make([]string, len(ev))
	for i, e := range ev {
		out[i] = e.String()
	}
	return out
}

// Trace is the compact event-kind trace (for distinct-trace counting).
func (l *Log) Trace() string {
	ev := l.Events()
	var sb strings.Builder
	for _, e := range ev {
		sb.WriteString(e.Who)
		sb.WriteByte(':')
		sb.WriteString(e.Kind)
		if e.Pkt != nil {
			sb.WriteByte('/')
			sb.WriteString(ref.Kind(e.Pkt))
		}
		sb.WriteByte(' ')
	}
	return sb.String()
}
