package bh

import (
	"fmt"
	"sync"
	"time"

	"github.com/256dpi/gomqtt/broker"
	"github.com/256dpi/gomqtt/packet"

	"verif/internal/wire"
)

// Watchdog is the generous wall-clock bound around every wait. Its firing is
// never a verdict by itself (callers confirm with the stuck detector or
// report inconclusive).
var Watchdog = 20 * time.Second

// Broker is one in-process broker under test with its monitors.
type Broker struct {
	Log     *Log
	Mon     *MonBackend
	Engine  *broker.Engine
	mu      sync.Mutex
	n       int
	Conns   map[string]*FConn
	ClientC map[string]*broker.Client
}

// NewBroker creates a broker (real Engine + real MemoryBackend behind the monitor).
func NewBroker() *Broker {
	log := &Log{}
	mon := NewMonBackend(log)
	eng := broker.NewEngine(mon)
	eng.MaxWriteDelay = 0
	eng.ConnectTimeout = 30 * time.Second
	return &Broker{Log: log, Mon: mon, Engine: eng, Conns: map[string]*FConn{}}
}

// Attach creates a new in-memory connection handled by the engine and returns
// the peer end and the broker-side connection wrapper. prep may configure the
// wrapper (faults, assertions) or the ends before the broker sees it.
func (b *Broker) Attach(name string, prep func(fc *FConn, brokerEnd, peerEnd *wire.End)) (*Peer, *FConn) {
	return b.AttachWith(name, prep, nil)
}

// AttachWith is Attach with a hook that configures the peer before its reader starts.
func (b *Broker) AttachWith(name string, prep func(fc *FConn, brokerEnd, peerEnd *wire.End), pp func(p *Peer)) (*Peer, *FConn) {
	b.mu.Lock()
	b.n++
	if name == "" {
		name = fmt.Sprintf("c%d", b.n)
	}
	b.mu.Unlock()
	pe, be := wire.Pair()
	fc := NewFConn(wire.NewConn(be), name, b.Log, "bsend", "brecv")
	if prep != nil {
		prep(fc, be, pe)
	}
	b.mu.Lock()
	b.Conns[name] = fc
	b.mu.Unlock()
	peer := NewPeer(name, pe, b.Log)
	if pp != nil {
		pp(peer)
	}
	peer.Start()
	if !b.Engine.Handle(fc) {
		peer.Close()
	}
	return peer, fc
}

// ConnectOpts describes a CONNECT.
type ConnectOpts struct {
	ID        string
	Clean     bool
	KeepAlive uint16
	Will      *packet.Message
	User      string
	Pass      string
	AutoAck   bool
	OnPeer    func(p *Peer) // configure the peer before its reader starts
}

// Connect attaches a peer, sends CONNECT and waits for CONNACK. It returns
// the peer, the CONNACK (nil if the connection ended first) and an error for
// watchdog expiry.
func (b *Broker) Connect(name string, o ConnectOpts, prep func(fc *FConn, brokerEnd, peerEnd *wire.End)) (*Peer, *FConn, *packet.Connack, error) {
	p, fc := b.AttachWith(name, prep, func(p *Peer) {
		p.AutoAck = o.AutoAck
		if o.OnPeer != nil {
			o.OnPeer(p)
		}
	})
	c := &packet.Connect{ClientID: o.ID, CleanSession: o.Clean, KeepAlive: o.KeepAlive, Will: o.Will, Username: o.User, Password: o.Pass, Version: 4}
	if err := p.Send(c); err != nil {
		return p, fc, nil, nil
	}
	pkt, err := p.Next(Watchdog)
	if err == ErrTimeout {
		return p, fc, nil, err
	}
	if err != nil {
		return p, fc, nil, nil
	}
	ca, _ := pkt.(*packet.Connack)
	return p, fc, ca, nil
}

// ClientOf returns the monitor's record for the connection name (nil if the
// broker never reported anything for it).
func (b *Broker) ClientOf(name string) *ClientInfo { return b.Mon.ByName(name) }

// WaitClosed waits for the broker.Client of a connection to be fully closed.
func (b *Broker) WaitClosed(name string, d time.Duration) bool {
	deadline := time.Now().Add(d)
	for {
		ci := b.Mon.ByName(name)
		if ci != nil {
			select {
			case <-ci.Client.Closed():
				return true
			case <-time.After(time.Until(deadline)):
				return false
			}
		}
		if time.Now().After(deadline) {
			return false
		}
		time.Sleep(200 * time.Microsecond)
	}
}

// Ping sends PINGREQ and waits for the PINGRESP (a fence: everything the peer
// sent before has been processed by the broker's processor).
func Ping(p *Peer) error {
	if err := p.Send(&packet.Pingreq{}); err != nil {
		return err
	}
	_, err := p.WaitFor(Watchdog, func(g packet.Generic) bool { _, ok := g.(*packet.Pingresp); return ok })
	return err
}

// Shutdown closes the backend (all clients) and waits for them.
func (b *Broker) Shutdown() bool {
	return b.Mon.Inner.Close(Watchdog)
}
