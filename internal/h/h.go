// Package h is the shared core of every property check: run bookkeeping,
// evidence and replay writing, known-findings lookup, deterministic PRNG
// streams and the crash journal.
package h

import (
	"encoding/json"
	"fmt"
	"hash/fnv"
	"math/rand"
	"os"
	"path/filepath"
	"sort"
	"strconv"
	"strings"
	"sync"
	"sync/atomic"
	"time"
)

// Root is the /verif directory (overridable for vp-run snapshots).
func Root() string {
	if r := os.Getenv("VERIF_ROOT"); r != "" {
		return r
	}
	return "/verif"
}

type finding struct {
	Property string `json:"property"`
	Key      string `json:"key"`
	What     string `json:"what"`
	Commit   string `json:"commit,omitempty"`
	Line     string `json:"line,omitempty"`
}

type findingsFile struct {
	Known []finding `json:"known"`
	Fixed []finding `json:"fixed"`
}

// Violation is one recorded refutation.
type Violation struct {
	Key     string      `json:"key"`
	Message string      `json:"message"`
	Replay  string      `json:"replay"`
	Witness interface{} `json:"-"`
}

// Run collects what one execution of a check observed.
type Run struct {
	Prop  string
	Level string
	tier  string
	seed  int64
	start time.Time

	evals int64

	mu          sync.Mutex
	nontrivial  map[uint64]struct{}
	samples     []interface{}
	counters    map[string]int64
	distinct    map[string]map[uint64]struct{}
	violations  []Violation
	vkeys       map[string]int
	knownSeen   map[string]int
	known       map[string]string
	assumptions []string
	rule        string
	exhaustive  bool
	inconcl     []string
	onlyKey     string
	journal     *os.File
	extra       map[string]interface{}
}

// New starts a run for a property; tier and seed come from the environment.
func New(prop, level string) *Run {
	tier := os.Getenv("VERIF_TIER")
	if tier != "thorough" {
		tier = "quick"
	}
	seed := int64(1)
	if s := os.Getenv("VERIF_SEED"); s != "" {
		if v, err := strconv.ParseInt(s, 10, 64); err == nil {
			seed = v
		}
	}
	r := &Run{
		Prop: prop, Level: level, tier: tier, seed: seed, start: time.Now(),
		nontrivial: map[uint64]struct{}{},
		counters:   map[string]int64{},
		distinct:   map[string]map[uint64]struct{}{},
		vkeys:      map[string]int{},
		knownSeen:  map[string]int{},
		known:      map[string]string{},
		extra:      map[string]interface{}{},
		onlyKey:    os.Getenv("VERIF_ONLY_KEY"),
	}
	// known findings (never written at run time)
	if b, err := os.ReadFile(filepath.Join(Root(), "known_findings.json")); err == nil {
		var ff findingsFile
		if json.Unmarshal(b, &ff) == nil {
			for _, k := range ff.Known {
				if k.Property == prop {
					r.known[k.Key] = k.What
				}
			}
		}
	}
	_ = os.MkdirAll(filepath.Join(Root(), "build"), 0o755)
	if f, err := os.OpenFile(filepath.Join(Root(), "build", strings.ToLower(prop)+".journal"), os.O_CREATE|os.O_RDWR|os.O_TRUNC, 0o644); err == nil {
		r.journal = f
	}
	return r
}

func (r *Run) Tier() string { return r.tier }
func (r *Run) Quick() bool  { return r.tier == "quick" }
func (r *Run) Seed() int64  { return r.seed }

// Pick returns q in the quick tier and t in the thorough tier.
func (r *Run) Pick(q, t int) int {
	if r.Quick() {
		return q
	}
	return t
}

// Rand returns a PRNG whose stream is a pure function of (seed, name).
func (r *Run) Rand(name string) *rand.Rand {
	hh := fnv.New64a()
	fmt.Fprintf(hh, "%d/%s", r.seed, name)
	return rand.New(rand.NewSource(int64(hh.Sum64())))
}

// Eval counts one executed case.
func (r *Run) Eval() { atomic.AddInt64(&r.evals, 1) }

// EvalN counts n executed cases.
func (r *Run) EvalN(n int) { atomic.AddInt64(&r.evals, int64(n)) }

func hash(s string) uint64 {
	hh := fnv.New64a()
	hh.Write([]byte(s))
	return hh.Sum64()
}

// NonTrivial records the signature of a non-trivial case; distinct
// signatures are what evidence reports as distinct_nontrivial.
func (r *Run) NonTrivial(sig string) {
	k := hash(sig)
	r.mu.Lock()
	r.nontrivial[k] = struct{}{}
	r.mu.Unlock()
}

// Distinct records a value in a named distinct-counter (e.g. traces seen).
func (r *Run) Distinct(name, sig string) {
	k := hash(sig)
	r.mu.Lock()
	m := r.distinct[name]
	if m == nil {
		m = map[uint64]struct{}{}
		r.distinct[name] = m
	}
	m[k] = struct{}{}
	r.mu.Unlock()
}

// Sample keeps up to 6 concrete cases for the evidence file.
func (r *Run) Sample(v interface{}) {
	r.mu.Lock()
	if len(r.samples) < 6 {
		r.samples = append(r.samples, v)
	}
	r.mu.Unlock()
}

// Count adds to a named counter reported in the evidence.
func (r *Run) Count(name string, n int64) {
	r.mu.Lock()
	r.counters[name] += n
	r.mu.Unlock()
}

func (r *Run) Set(name string, v interface{}) {
	r.mu.Lock()
	r.extra[name] = v
	r.mu.Unlock()
}

func (r *Run) Rule(s string)   { r.rule = s }
func (r *Run) Assume(s string) { r.assumptions = append(r.assumptions, s) }
func (r *Run) Exhaustive()     { r.exhaustive = true }

// Inconclusive records a reason why part of the run could not decide.
func (r *Run) Inconclusive(msg string) {
	r.mu.Lock()
	if len(r.inconcl) < 20 {
		r.inconcl = append(r.inconcl, msg)
	}
	r.counters["inconclusive"]++
	r.mu.Unlock()
}

// Journal overwrites the "current case" record read by the driver when the
// child process dies (panic in a goroutine of the system under test).
func (r *Run) Journal(format string, args ...interface{}) {
	if r.journal == nil {
		return
	}
	s := fmt.Sprintf(format, args...)
	if len(s) > 16000 {
		s = s[:16000]
	}
	buf := make([]byte, 16384)
	copy(buf, s)
	for i := len(s); i < len(buf); i++ {
		buf[i] = ' '
	}
	buf[len(buf)-1] = '\n'
	_, _ = r.journal.WriteAt(buf, 0)
}

// Violated reports whether a violation with this key was recorded already.
func (r *Run) Violated(key string) bool {
	r.mu.Lock()
	defer r.mu.Unlock()
	return r.vkeys[key] > 0 || r.knownSeen[key] > 0
}

// Violation records a refutation. key identifies the failing input class /
// call site / history shape; a key listed in known_findings.json is reported
// as KNOWN-FINDING and does not fail the run.
func (r *Run) Violation(key, msg string, witness interface{}) {
	r.mu.Lock()
	defer r.mu.Unlock()
	if r.onlyKey != "" && key != r.onlyKey {
		return
	}
	if _, ok := r.known[key]; ok {
		r.knownSeen[key]++
		return
	}
	r.vkeys[key]++
	if r.vkeys[key] > 3 || len(r.violations) >= 40 {
		return // keep a few witnesses per key
	}
	dir := filepath.Join(Root(), "replays", r.Prop)
	_ = os.MkdirAll(dir, 0o755)
	name := fmt.Sprintf("%d-%s-%03d.json", r.seed, r.tier, len(r.violations))
	path := filepath.Join(dir, name)
	rep := map[string]interface{}{
		"property": r.Prop, "seed": r.seed, "tier": r.tier, "key": key,
		"message": msg, "witness": witness,
		"how_to_replay": fmt.Sprintf("./check %s --replay %s  (re-runs the deterministic case list for this seed/tier restricted to this key)", r.Prop, path),
	}
	b, err := json.MarshalIndent(rep, "", " ")
	if err != nil {
		rep["witness"] = fmt.Sprintf("%+v", witness)
		b, _ = json.MarshalIndent(rep, "", " ")
	}
	_ = os.WriteFile(path, b, 0o644)
	r.violations = append(r.violations, Violation{Key: key, Message: msg, Replay: path})
}

// OnlyKey is the key a replay is restricted to ("" in normal runs).
func (r *Run) OnlyKey() string { return r.onlyKey }

// Finish writes the evidence file, prints the verdict lines and returns the
// process exit code (0 held, 1 violation, 2 inconclusive).
func (r *Run) Finish(minNonTrivial int) int {
	r.mu.Lock()
	defer r.mu.Unlock()
	wall := time.Since(r.start).Seconds()
	cov := map[string]interface{}{
		"evaluations":         atomic.LoadInt64(&r.evals),
		"distinct_nontrivial": len(r.nontrivial),
		"rule":                r.rule,
		"samples":             r.samples,
		"counters":            r.counters,
	}
	if r.exhaustive {
		cov["exhaustive"] = true
	}
	for k, m := range r.distinct {
		cov["distinct_"+k] = len(m)
	}
	for k, v := range r.extra {
		cov[k] = v
	}
	if len(r.inconcl) > 0 {
		cov["inconclusive_reasons"] = r.inconcl
	}
	nviol := 0
	for _, n := range r.vkeys {
		nviol += n
	}
	vlist := []map[string]string{}
	for _, v := range r.violations {
		vlist = append(vlist, map[string]string{"key": v.Key, "message": v.Message, "replay": v.Replay})
	}
	if len(vlist) > 0 {
		cov["violation_details"] = vlist
	}
	if len(r.knownSeen) > 0 {
		cov["known_findings_met"] = r.knownSeen
	}
	ev := map[string]interface{}{
		"property_id": r.Prop, "tier": r.tier, "seed": r.seed, "level": r.Level,
		"coverage": cov, "assumptions": r.assumptions, "wall_s": wall, "violations": nviol,
	}
	if len(r.assumptions) == 0 {
		ev["assumptions"] = []string{}
	}
	b, _ := json.MarshalIndent(ev, "", " ")
	if os.Getenv("VERIF_NO_EVIDENCE") == "" { // set by tools/coverage.sh only
		_ = os.MkdirAll(filepath.Join(Root(), "evidence"), 0o755)
		_ = os.WriteFile(filepath.Join(Root(), "evidence", r.Prop+".json"), b, 0o644)
	}

	keys := make([]string, 0, len(r.knownSeen))
	for k := range r.knownSeen {
		keys = append(keys, k)
	}
	sort.Strings(keys)
	for _, k := range keys {
		fmt.Printf("KNOWN-FINDING: property=%s %s — %s (met %d times)\n", r.Prop, k, r.known[k], r.knownSeen[k])
	}
	fmt.Printf("SUMMARY property=%s tier=%s seed=%d evaluations=%d distinct_nontrivial=%d violations=%d wall=%.1fs\n",
		r.Prop, r.tier, r.seed, atomic.LoadInt64(&r.evals), len(r.nontrivial), nviol, wall)
	ck := make([]string, 0, len(r.counters))
	for k := range r.counters {
		ck = append(ck, k)
	}
	sort.Strings(ck)
	for _, k := range ck {
		fmt.Printf("  counter %s=%d\n", k, r.counters[k])
	}
	if nviol > 0 {
		seen := map[string]bool{}
		for _, v := range r.violations {
			if seen[v.Key] {
				continue
			}
			seen[v.Key] = true
			fmt.Printf("VIOLATION property=%s replay=%s key=%s :: %s\n", r.Prop, v.Replay, v.Key, oneLine(v.Message))
		}
		fmt.Println("RESULT violations")
		return 1
	}
	if r.onlyKey != "" {
		fmt.Println("RESULT ok (replay: violation did not recur)")
		return 0
	}
	if len(r.nontrivial) < minNonTrivial {
		fmt.Printf("INCONCLUSIVE property=%s only %d non-trivial cases observed (< %d)\n", r.Prop, len(r.nontrivial), minNonTrivial)
		fmt.Println("RESULT inconclusive")
		return 2
	}
	if len(r.inconcl) > 0 {
		for _, m := range r.inconcl {
			fmt.Printf("INCONCLUSIVE-PART property=%s %s\n", r.Prop, oneLine(m))
		}
	}
	fmt.Println("RESULT ok")
	return 0
}

func oneLine(s string) string {
	s = strings.ReplaceAll(s, "\n", " | ")
	if len(s) > 400 {
		s = s[:400] + "…"
	}
	return s
}

// Hex renders bytes compactly for witnesses (truncated in the middle).
func Hex(b []byte) string {
	if len(b) <= 96 {
		return fmt.Sprintf("%x", b)
	}
	return fmt.Sprintf("%x…(%d bytes)…%x", b[:64], len(b), b[len(b)-16:])
}

// Parallel runs fn(i) for i in [0,n) on the given number of workers.
func Parallel(n, workers int, fn func(i int)) {
	if workers < 1 {
		workers = 1
	}
	var next int64 = -1
	var wg sync.WaitGroup
	for w := 0; w < workers; w++ {
		wg.Add(1)
		go func() {
			defer wg.Done()
			for {
				i := int(atomic.AddInt64(&next, 1))
				if i >= n {
					return
				}
				fn(i)
			}
		}()
	}
	wg.Wait()
}

// TooMany reports that enough violations were recorded; workloads may stop
// early (each further failing case can cost a watchdog period).
func (r *Run) TooMany() bool {
	r.mu.Lock()
	defer r.mu.Unlock()
	n := 0
	for _, c := range r.vkeys {
		n += c
	}
	return n >= 25
}

// Exit ends the child process with the verdict code. Under tools/coverage.sh
// (VERIF_NO_EVIDENCE set) the test returns normally instead so that the
// coverage profile is written.
func Exit(code int) {
	if os.Getenv("VERIF_NO_EVIDENCE") != "" {
		return
	}
	os.Exit(code)
}
