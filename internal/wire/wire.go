// Package wire is an in-memory, byte-level duplex carrier with TCP-like
// semantics. It implements transport.Carrier, records every byte written per
// direction, can fragment reads by a schedule and can bound its buffer (to
// produce senders blocked on a peer that does not read).
package wire

import (
	"errors"
	"io"
	"net"
	"sync"
	"time"

	"github.com/256dpi/gomqtt/transport"
)

// ErrClosed is returned for operations on a locally closed end.
var ErrClosed = errors.New("wire: use of closed connection")

// ErrReset is returned when writing to an end whose peer has closed.
var ErrReset = errors.New("wire: connection reset by peer")

type timeoutErr struct{}

func (timeoutErr) Error() string   { return "wire: i/o timeout" }
func (timeoutErr) Timeout() bool   { return true }
func (timeoutErr) Temporary() bool { return true }

// one direction
type pipe struct {
	mu       sync.Mutex
	cond     *sync.Cond
	buf      []byte
	capacity int  // 0 = unbounded
	wclosed  bool // writer side closed: reader drains, then EOF
	rclosed  bool // reader side closed: writes fail
	written  []byte
	total    int64
	record   bool
}

func newPipe() *pipe {
	p := &pipe{record: true}
	p.cond = sync.NewCond(&p.mu)
	return p
}

// End is one side of the connection.
type End struct {
	rd, wr *pipe

	dmu      sync.Mutex
	deadline time.Time
	dtimer   *time.Timer
	dgen     int

	cmu     sync.Mutex
	closed  bool
	chunker func(avail int) int
	gate    chan struct{}

	// OnClose is called once when this end is closed locally.
	OnClose func()
}

// Pair returns two connected ends.
func Pair() (*End, *End) {
	ab, ba := newPipe(), newPipe()
	return &End{rd: ba, wr: ab}, &End{rd: ab, wr: ba}
}

// SetCapacity bounds the bytes buffered in the direction this end WRITES to.
func (e *End) SetCapacity(n int) {
	e.wr.mu.Lock()
	e.wr.capacity = n
	e.wr.mu.Unlock()
}

// SetChunker fragments this end's reads: each Read returns at most f(avail) bytes.
func (e *End) SetChunker(f func(avail int) int) {
	e.cmu.Lock()
	e.chunker = f
	e.cmu.Unlock()
}

// Written returns a copy of every byte this end has written so far.
func (e *End) Written() []byte {
	e.wr.mu.Lock()
	defer e.wr.mu.Unlock()
	return append([]byte(nil), e.wr.written...)
}

// WrittenLen returns the number of bytes this end has written so far.
func (e *End) WrittenLen() int64 {
	e.wr.mu.Lock()
	defer e.wr.mu.Unlock()
	return e.wr.total
}

// Buffered returns the number of bytes waiting to be read by this end.
func (e *End) Buffered() int {
	e.rd.mu.Lock()
	defer e.rd.mu.Unlock()
	return len(e.rd.buf)
}

// Closed reports whether this end was closed locally.
func (e *End) Closed() bool {
	e.cmu.Lock()
	defer e.cmu.Unlock()
	return e.closed
}

// SetReadGate makes every Read of this end wait until the channel is closed
// (a peer that does not read); nil removes the gate.
func (e *End) SetReadGate(g chan struct{}) {
	e.cmu.Lock()
	e.gate = g
	e.cmu.Unlock()
}

func (e *End) Read(b []byte) (int, error) {
	if len(b) == 0 {
		return 0, nil
	}
	e.cmu.Lock()
	g := e.gate
	e.cmu.Unlock()
	if g != nil {
		<-g
	}
	p := e.rd
	p.mu.Lock()
	defer p.mu.Unlock()
	for {
		if p.rclosed {
			return 0, ErrClosed
		}
		if len(p.buf) > 0 {
			n := len(b)
			if n > len(p.buf) {
				n = len(p.buf)
			}
			e.cmu.Lock()
			ch := e.chunker
			e.cmu.Unlock()
			if ch != nil {
				if c := ch(len(p.buf)); c >= 1 && c < n {
					n = c
				}
			}
			copy(b, p.buf[:n])
			p.buf = p.buf[n:]
			if len(p.buf) == 0 {
				p.buf = nil
			}
			p.cond.Broadcast()
			return n, nil
		}
		if p.wclosed {
			return 0, io.EOF
		}
		e.dmu.Lock()
		dl := e.deadline
		e.dmu.Unlock()
		if !dl.IsZero() && !time.Now().Before(dl) {
			return 0, timeoutErr{}
		}
		p.cond.Wait()
	}
}

func (e *End) Write(b []byte) (int, error) {
	p := e.wr
	p.mu.Lock()
	defer p.mu.Unlock()
	written := 0
	for len(b) > 0 {
		if p.wclosed {
			return written, ErrClosed
		}
		if p.rclosed {
			return written, ErrReset
		}
		n := len(b)
		if p.capacity > 0 {
			room := p.capacity - len(p.buf)
			if room <= 0 {
				p.cond.Wait()
				continue
			}
			if n > room {
				n = room
			}
		}
		p.buf = append(p.buf, b[:n]...)
		if p.record && len(p.written) < 64<<20 {
			p.written = append(p.written, b[:n]...)
		}
		p.total += int64(n)
		written += n
		b = b[n:]
		p.cond.Broadcast()
	}
	return written, nil
}

// Close closes this end: local reads and writes fail, the peer drains what
// was written and then sees EOF, the peer's writes fail.
func (e *End) Close() error {
	e.cmu.Lock()
	if e.closed {
		e.cmu.Unlock()
		return ErrClosed
	}
	e.closed = true
	cb := e.OnClose
	e.cmu.Unlock()
	e.wr.mu.Lock()
	e.wr.wclosed = true
	e.wr.cond.Broadcast()
	e.wr.mu.Unlock()
	e.rd.mu.Lock()
	e.rd.rclosed = true
	e.rd.cond.Broadcast()
	e.rd.mu.Unlock()
	if cb != nil {
		cb()
	}
	return nil
}

// SetReadDeadline implements transport.Carrier.
func (e *End) SetReadDeadline(t time.Time) error {
	e.cmu.Lock()
	closed := e.closed
	e.cmu.Unlock()
	if closed {
		return ErrClosed
	}
	e.dmu.Lock()
	e.deadline = t
	e.dgen++
	gen := e.dgen
	if e.dtimer != nil {
		e.dtimer.Stop()
		e.dtimer = nil
	}
	if !t.IsZero() {
		d := time.Until(t)
		if d < 0 {
			d = 0
		}
		e.dtimer = time.AfterFunc(d, func() {
			e.dmu.Lock()
			cur := e.dgen == gen
			e.dmu.Unlock()
			if cur {
				e.rd.mu.Lock()
				e.rd.cond.Broadcast()
				e.rd.mu.Unlock()
			}
		})
	}
	e.dmu.Unlock()
	// wake a blocked reader so that it re-evaluates the deadline
	e.rd.mu.Lock()
	e.rd.cond.Broadcast()
	e.rd.mu.Unlock()
	return nil
}

type addr string

func (a addr) Network() string { return "wire" }
func (a addr) String() string  { return string(a) }

// Conn is a transport.Conn made of the repository's own BaseConn over an End.
type Conn struct {
	*transport.BaseConn
	End *End
}

func (c *Conn) LocalAddr() net.Addr  { return addr("local") }
func (c *Conn) RemoteAddr() net.Addr { return addr("remote") }

// NewConn wraps an End into the repository's BaseConn (real packet.Stream and
// mercury.Writer are in the loop).
func NewConn(e *End) *Conn {
	return &Conn{BaseConn: transport.NewBaseConn(e), End: e}
}

var _ transport.Conn = (*Conn)(nil)
var _ transport.Carrier = (*End)(nil)
