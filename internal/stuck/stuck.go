// Package stuck confirms "permanently blocked" claims with goroutine profiles:
// a goroutine with a frame in the repository parked at the same place in two
// dumps taken some time apart, with no event logged in between.
package stuck

import (
	"regexp"
	"runtime"
	"strings"
	"time"
)

// Dump returns the stacks of all goroutines.
func Dump() string {
	buf := make([]byte, 1<<20)
	for {
		n := runtime.Stack(buf, true)
		if n < len(buf) {
			return string(buf[:n])
		}
		buf = make([]byte, 2*len(buf))
	}
}

var hexArgs = regexp.MustCompile(`\(0x[0-9a-f, x]*\)|\+0x[0-9a-f]+|0x[0-9a-f]+`)

// Parked returns goroutine stacks (normalised) that contain all of the given
// substrings.
func Parked(dump string, must ...string) map[string]string {
	out := map[string]string{}
	for _, g := range strings.Split(dump, "\n\n") {
		ok := true
		for _, m := range must {
			if !strings.Contains(g, m) {
				ok = false
				break
			}
		}
		if !ok {
			continue
		}
		lines := strings.Split(g, "\n")
		if len(lines) == 0 {
			continue
		}
		id := strings.Fields(lines[0])
		key := ""
		if len(id) >= 2 {
			key = id[1]
		}
		out[key] = hexArgs.ReplaceAllString(strings.Join(lines[1:], "\n"), "")
	}
	return out
}

// Confirm takes two dumps `gap` apart and returns the goroutines that contain
// all `must` substrings and sit in the same (normalised) stack both times,
// provided progress() reports no progress in between.
func Confirm(gap time.Duration, progress func() int, must ...string) (confirmed bool, stacks []string) {
	p0 := progress()
	a := Parked(Dump(), must...)
	time.Sleep(gap)
	b := Parked(Dump(), must...)
	if progress() != p0 {
		return false, nil
	}
	for id, st := range a {
		if b[id] == st {
			stacks = append(stacks, "goroutine "+id+":\n"+st)
		}
	}
	return len(stacks) > 0, stacks
}
