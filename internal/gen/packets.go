// Package gen generates well-formed packet values, topics and scripts from
// seeded PRNG streams. "Well-formed" is defined here, from the specification,
// not by asking the library.
package gen

import (
	"math/rand"

	"github.com/256dpi/gomqtt/packet"
)

const alphabet = "abcdefghijklmnopqrstuvwxyz0123456789/+#-_ \xc3\xa9\xe2\x82\xac"

// Str returns a pseudo-random string of exactly n bytes.
func Str(r *rand.Rand, n int) string {
	b := make([]byte, n)
	if n > 4096 {
		// fill large strings quickly but not uniformly
		seed := byte(r.Intn(256))
		for i := range b {
			b[i] = alphabet[(int(seed)+i*7+i/251)%len(alphabet)]
		}
		return string(b)
	}
	for i := range b {
		b[i] = alphabet[r.Intn(len(alphabet))]
	}
	return string(b)
}

// Bytes returns n pseudo-random bytes (any value).
func Bytes(r *rand.Rand, n int) []byte {
	b := make([]byte, n)
	if n > 4096 {
		x := uint32(r.Int63())
		for i := range b {
			x = x*1664525 + 1013904223
			b[i] = byte(x >> 24)
		}
		return b
	}
	for i := range b {
		b[i] = byte(r.Intn(256))
	}
	return b
}

// IDs are the boundary packet identifiers.
var IDs = []packet.ID{1, 2, 255, 256, 32767, 32768, 65534, 65535}

// FieldLens are the boundary field lengths.
var FieldLens = []int{0, 1, 2, 127, 128, 65534, 65535}

// RLTargets are remaining lengths on both sides of every varint boundary.
var RLTargets = []int{0, 1, 2, 3, 126, 127, 128, 129, 16382, 16383, 16384, 16385, 2097150, 2097151, 2097152, 2097153}

// Sized builds a well-formed packet of the given type whose remaining length
// is exactly rl, or nil when the type cannot reach it. variant selects flags.
func Sized(r *rand.Rand, t packet.Type, rl int, variant int) packet.Generic {
	id := IDs[variant%len(IDs)]
	switch t {
	case packet.PUBLISH:
		q := packet.QOS(variant % 3)
		p := &packet.Publish{}
		p.Message.QOS = q
		p.Message.Retain = variant&4 != 0
		over := 2
		if q > 0 {
			over = 4
			p.ID = id
			p.Dup = variant&8 != 0
		}
		if rl < over+1 {
			return nil
		}
		tl := 1
		if variant&16 != 0 { // long topic variant
			tl = rl - over
			if tl > 65535 {
				tl = 65535
			}
		}
		p.Message.Topic = Str(r, tl)
		p.Message.Payload = Bytes(r, rl-over-tl)
		if len(p.Message.Payload) == 0 {
			p.Message.Payload = nil
		}
		return p
	case packet.CONNECT:
		c := &packet.Connect{Version: 4, CleanSession: variant&1 != 0, KeepAlive: uint16(variant * 257)}
		base := 10
		if variant&2 != 0 {
			c.Version = 3
			base = 12
		}
		base += 2 // client id length prefix
		if variant&4 != 0 {
			c.Will = &packet.Message{QOS: packet.QOS((variant >> 4) % 3), Retain: variant&8 != 0}
			base += 4 + 1
		}
		if rl < base+1 {
			return nil
		}
		free := rl - base
		// distribute the free bytes: client id first (at least 1), then
		// will payload, username, password (each needs 2 bytes of prefix and,
		// for user/pass, at least 1 byte of content)
		take := func(max int) int {
			n := free
			if n > max {
				n = max
			}
			free -= n
			return n
		}
		cid := take(65535)
		if cid == 0 {
			return nil
		}
		c.ClientID = Str(r, cid)
		if c.Will != nil {
			c.Will.Topic = "w"
			c.Will.Payload = Bytes(r, take(65535))
			if len(c.Will.Payload) == 0 {
				c.Will.Payload = nil
			}
		}
		if free >= 3 {
			free -= 2
			c.Username = Str(r, take(65535))
			if free >= 3 {
				free -= 2
				c.Password = Str(r, take(65535))
			}
		}
		if free != 0 {
			// put leftovers (1..2 bytes) back into the client id when possible
			if len(c.ClientID)+free <= 65535 {
				c.ClientID += Str(r, free)
				free = 0
			} else {
				return nil
			}
		}
		return c
	case packet.CONNACK:
		if rl != 2 {
			return nil
		}
		return &packet.Connack{SessionPresent: variant&1 != 0, ReturnCode: packet.ConnackCode((variant >> 1) % 6)}
	case packet.PUBACK, packet.PUBREC, packet.PUBREL, packet.PUBCOMP, packet.UNSUBACK:
		if rl != 2 {
			return nil
		}
		switch t {
		case packet.PUBACK:
			return &packet.Puback{ID: id}
		case packet.PUBREC:
			return &packet.Pubrec{ID: id}
		case packet.PUBREL:
			return &packet.Pubrel{ID: id}
		case packet.PUBCOMP:
			return &packet.Pubcomp{ID: id}
		}
		return &packet.Unsuback{ID: id}
	case packet.SUBSCRIBE:
		if rl < 2+4 {
			return nil
		}
		s := &packet.Subscribe{ID: id}
		free := rl - 2
		for free > 0 {
			if free < 4 {
				// cannot place another filter: grow the last one
				last := &s.Subscriptions[len(s.Subscriptions)-1]
				if len(last.Topic)+free > 65535 {
					return nil
				}
				last.Topic += Str(r, free)
				free = 0
				break
			}
			n := free - 3
			max := 65535
			if variant&16 == 0 && rl < 5000 {
				max = 1 + variant%7 // many short filters
			}
			if n > max {
				n = max
			}
			s.Subscriptions = append(s.Subscriptions, packet.Subscription{Topic: Str(r, n), QOS: packet.QOS((variant + len(s.Subscriptions)) % 3)})
			free -= 3 + n
		}
		return s
	case packet.UNSUBSCRIBE:
		if rl < 2+3 {
			return nil
		}
		u := &packet.Unsubscribe{ID: id}
		free := rl - 2
		for free > 0 {
			if free < 3 {
				last := &u.Topics[len(u.Topics)-1]
				if len(*last)+free > 65535 {
					return nil
				}
				*last += Str(r, free)
				free = 0
				break
			}
			n := free - 2
			max := 65535
			if variant&16 == 0 && rl < 5000 {
				max = 1 + variant%7
			}
			if n > max {
				n = max
			}
			u.Topics = append(u.Topics, Str(r, n))
			free -= 2 + n
		}
		return u
	case packet.SUBACK:
		if rl < 3 {
			return nil
		}
		s := &packet.Suback{ID: id, ReturnCodes: make([]packet.QOS, rl-2)}
		codes := []packet.QOS{0, 1, 2, 0x80}
		for i := range s.ReturnCodes {
			s.ReturnCodes[i] = codes[(i+variant)%4]
		}
		return s
	case packet.PINGREQ:
		if rl != 0 {
			return nil
		}
		return &packet.Pingreq{}
	case packet.PINGRESP:
		if rl != 0 {
			return nil
		}
		return &packet.Pingresp{}
	case packet.DISCONNECT:
		if rl != 0 {
			return nil
		}
		return &packet.Disconnect{}
	}
	return nil
}

// Random returns a random well-formed packet of modest size.
func Random(r *rand.Rand) packet.Generic {
	types := packet.Types()
	t := types[r.Intn(len(types))]
	return RandomOf(r, t)
}

func pickLen(r *rand.Rand) int {
	switch r.Intn(10) {
	case 0:
		return FieldLens[r.Intn(len(FieldLens))]
	case 1:
		return r.Intn(5000)
	default:
		return r.Intn(24)
	}
}

// RandomOf returns a random well-formed packet of the given type.
func RandomOf(r *rand.Rand, t packet.Type) packet.Generic {
	id := packet.ID(1 + r.Intn(65535))
	if r.Intn(4) == 0 {
		id = IDs[r.Intn(len(IDs))]
	}
	switch t {
	case packet.CONNECT:
		c := &packet.Connect{Version: 4, CleanSession: r.Intn(2) == 0, KeepAlive: uint16(r.Intn(65536))}
		if r.Intn(3) == 0 {
			c.Version = 3
		}
		c.ClientID = Str(r, pickLen(r))
		if c.ClientID == "" {
			c.CleanSession = true
		}
		if r.Intn(2) == 0 {
			c.Will = &packet.Message{Topic: Str(r, 1+pickLen(r)%65535), QOS: packet.QOS(r.Intn(3)), Retain: r.Intn(2) == 0}
			if n := pickLen(r); n > 0 {
				c.Will.Payload = Bytes(r, n)
			}
		}
		if r.Intn(2) == 0 {
			c.Username = Str(r, 1+pickLen(r)%65535)
			if r.Intn(2) == 0 {
				c.Password = Str(r, 1+pickLen(r)%65535)
			}
		}
		return c
	case packet.CONNACK:
		return &packet.Connack{SessionPresent: r.Intn(2) == 0, ReturnCode: packet.ConnackCode(r.Intn(6))}
	case packet.PUBLISH:
		p := &packet.Publish{}
		p.Message.Topic = Str(r, 1+pickLen(r)%65535)
		p.Message.QOS = packet.QOS(r.Intn(3))
		p.Message.Retain = r.Intn(2) == 0
		if p.Message.QOS > 0 {
			p.ID = id
			p.Dup = r.Intn(2) == 0
		}
		n := pickLen(r)
		if r.Intn(20) == 0 {
			n = r.Intn(200000)
		}
		if n > 0 {
			p.Message.Payload = Bytes(r, n)
		}
		return p
	case packet.PUBACK:
		return &packet.Puback{ID: id}
	case packet.PUBREC:
		return &packet.Pubrec{ID: id}
	case packet.PUBREL:
		return &packet.Pubrel{ID: id}
	case packet.PUBCOMP:
		return &packet.Pubcomp{ID: id}
	case packet.UNSUBACK:
		return &packet.Unsuback{ID: id}
	case packet.SUBSCRIBE:
		s := &packet.Subscribe{ID: id}
		for i, n := 0, 1+r.Intn(8); i < n; i++ {
			s.Subscriptions = append(s.Subscriptions, packet.Subscription{Topic: Str(r, 1+pickLen(r)%65535), QOS: packet.QOS(r.Intn(3))})
		}
		return s
	case packet.SUBACK:
		s := &packet.Suback{ID: id}
		codes := []packet.QOS{0, 1, 2, 0x80}
		for i, n := 0, 1+r.Intn(8); i < n; i++ {
			s.ReturnCodes = append(s.ReturnCodes, codes[r.Intn(4)])
		}
		return s
	case packet.UNSUBSCRIBE:
		u := &packet.Unsubscribe{ID: id}
		for i, n := 0, 1+r.Intn(8); i < n; i++ {
			u.Topics = append(u.Topics, Str(r, 1+pickLen(r)%65535))
		}
		return u
	case packet.PINGREQ:
		return &packet.Pingreq{}
	case packet.PINGRESP:
		return &packet.Pingresp{}
	}
	return &packet.Disconnect{}
}

// Small returns a random well-formed packet whose encoding is short
// (a few dozen bytes); used for stream / fragmentation workloads.
func Small(r *rand.Rand) packet.Generic {
	for {
		p := Random(r)
		if approxLen(p) < 80 {
			return p
		}
	}
}

func approxLen(p packet.Generic) int {
	switch v := p.(type) {
	case *packet.Connect:
		n := 14 + len(v.ClientID) + len(v.Username) + len(v.Password)
		if v.Will != nil {
			n += 4 + len(v.Will.Topic) + len(v.Will.Payload)
		}
		return n
	case *packet.Publish:
		return 6 + len(v.Message.Topic) + len(v.Message.Payload)
	case *packet.Subscribe:
		n := 4
		for _, s := range v.Subscriptions {
			n += 3 + len(s.Topic)
		}
		return n
	case *packet.Unsubscribe:
		n := 4
		for _, s := range v.Topics {
			n += 2 + len(s)
		}
		return n
	case *packet.Suback:
		return 4 + len(v.ReturnCodes)
	}
	return 4
}
