package ref

import (
	"sort"

	"github.com/256dpi/gomqtt/packet"
)

// Expect is one predicted delivery.
type Expect struct {
	Topic   string
	Payload string
	QOS     map[packet.QOS]bool // allowed delivery QoS values
	Retain  bool
	// Min/Max copies (retained replays: one per matching filter of the SUBSCRIBE at most)
	Min, Max int
}

// MClient is the model of one client's subscription state.
type MClient struct {
	Subs      map[string]packet.QOS
	Connected bool
}

// BrokerModel is the reference model of broker fan-out and retained messages.
type BrokerModel struct {
	Clients  map[string]*MClient
	Retained map[string]packet.Message
}

// NewBrokerModel returns an empty model.
func NewBrokerModel() *BrokerModel {
	return &BrokerModel{Clients: map[string]*MClient{}, Retained: map[string]packet.Message{}}
}

// Connect registers a client (clean: fresh subscription state).
func (m *BrokerModel) Connect(name string, clean bool) {
	c := m.Clients[name]
	if c == nil || clean {
		c = &MClient{Subs: map[string]packet.QOS{}}
		m.Clients[name] = c
	}
	c.Connected = true
}

// Disconnect marks a client offline (clean sessions lose their state).
func (m *BrokerModel) Disconnect(name string, clean bool) {
	if c := m.Clients[name]; c != nil {
		c.Connected = false
		if clean {
			delete(m.Clients, name)
		}
	}
}

// allowed returns the QoS values a delivery of a message published at q to
// topic may carry for this client: min(q, q_f) for each matching filter f.
func (c *MClient) allowed(topic string, q packet.QOS) map[packet.QOS]bool {
	out := map[packet.QOS]bool{}
	for f, fq := range c.Subs {
		if Matches(f, topic) {
			if fq < q {
				out[fq] = true
			} else {
				out[q] = true
			}
		}
	}
	return out
}

// Publish applies a publish and returns the live deliveries per connected client.
func (m *BrokerModel) Publish(msg packet.Message) map[string]Expect {
	if msg.Retain {
		if len(msg.Payload) > 0 {
			cp := msg
			cp.Payload = append([]byte(nil), msg.Payload...)
			m.Retained[msg.Topic] = cp
		} else {
			delete(m.Retained, msg.Topic)
		}
	}
	out := map[string]Expect{}
	for name, c := range m.Clients {
		if !c.Connected {
			continue
		}
		if a := c.allowed(msg.Topic, msg.QOS); len(a) > 0 {
			out[name] = Expect{Topic: msg.Topic, Payload: string(msg.Payload), QOS: a, Retain: false, Min: 1, Max: 1}
		}
	}
	return out
}

// Subscribe applies a SUBSCRIBE and returns the retained replays expected.
func (m *BrokerModel) Subscribe(name string, subs []packet.Subscription) []Expect {
	c := m.Clients[name]
	for _, s := range subs {
		c.Subs[s.Topic] = s.QOS
	}
	var out []Expect
	topics := make([]string, 0, len(m.Retained))
	for t := range m.Retained {
		topics = append(topics, t)
	}
	sort.Strings(topics)
	for _, t := range topics {
		n := 0
		for _, s := range subs {
			if Matches(s.Topic, t) {
				n++
			}
		}
		if n > 0 {
			r := m.Retained[t]
			out = append(out, Expect{Topic: t, Payload: string(r.Payload), QOS: c.allowed(t, r.QOS), Retain: true, Min: 1, Max: n})
		}
	}
	return out
}

// Unsubscribe applies an UNSUBSCRIBE.
func (m *BrokerModel) Unsubscribe(name string, topics []string) {
	c := m.Clients[name]
	for _, t := range topics {
		delete(c.Subs, t)
	}
}
