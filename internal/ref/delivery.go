package ref

import (
	"fmt"
	"sort"

	"github.com/256dpi/gomqtt/packet"
)

func clipS(s string) string {
	if len(s) > 24 {
		return s[:24] + fmt.Sprintf("…(%d)", len(s))
	}
	return s
}

// DescribeGot renders received PUBLISH packets.
func DescribeGot(ps []*packet.Publish) []string {
	var out []string
	for _, p := range ps {
		out = append(out, fmt.Sprintf("{%q %s q%d retain=%t dup=%t}", p.Message.Topic, clipS(string(p.Message.Payload)), p.Message.QOS, p.Message.Retain, p.Dup))
	}
	sort.Strings(out)
	return out
}

// DescribeExp renders expectations.
func DescribeExp(es []Expect) []string {
	var out []string
	for _, e := range es {
		var qs []int
		for q := range e.QOS {
			qs = append(qs, int(q))
		}
		sort.Ints(qs)
		out = append(out, fmt.Sprintf("{%q %s q∈%v retain=%t x%d..%d}", e.Topic, clipS(e.Payload), qs, e.Retain, e.Min, e.Max))
	}
	sort.Strings(out)
	return out
}

// CompareDeliveries matches received PUBLISH packets against expectations.
// It returns ("","") or a violation key and a description.
func CompareDeliveries(gotP []*packet.Publish, exp []Expect) (string, string) {
	// Several expectations may share topic, payload and retain flag (two empty
	// retained publishes at different QoS): deliveries of such a group are
	// assigned to its expectations by search, not first-come. Only when no
	// assignment exists does the first-match pass below produce the diagnosis.
	type gkey struct {
		t, p string
		r    bool
	}
	groups := map[gkey][]int{}
	for i, e := range exp {
		k := gkey{e.Topic, e.Payload, e.Retain}
		groups[k] = append(groups[k], i)
	}
	ambiguous := false
	for _, idx := range groups {
		if len(idx) > 1 {
			ambiguous = true
		}
	}
	if ambiguous {
		feasible := true
		byGroup := map[gkey][]*packet.Publish{}
		for _, p := range gotP {
			k := gkey{p.Message.Topic, string(p.Message.Payload), p.Message.Retain}
			if _, ok := groups[k]; !ok {
				feasible = false
				break
			}
			if (p.Message.QOS > 0) != (p.ID != 0) {
				feasible = false
				break
			}
			byGroup[k] = append(byGroup[k], p)
		}
		if feasible {
			for k, idx := range groups {
				ds := byGroup[k]
				used := make([]int, len(idx))
				var rec func(n int) bool
				rec = func(n int) bool {
					if n == len(ds) {
						for j, i := range idx {
							if used[j] < exp[i].Min {
								return false
							}
						}
						return true
					}
					for j, i := range idx {
						if exp[i].QOS[ds[n].Message.QOS] && used[j] < exp[i].Max {
							used[j]++
							if rec(n + 1) {
								return true
							}
							used[j]--
						}
					}
					return false
				}
				if len(ds) > 12 || !rec(0) {
					feasible = false
					break
				}
			}
		}
		if feasible {
			return "", ""
		}
	}
	used := make([]int, len(exp))
	for _, p := range gotP {
		found := -1
		for i, e := range exp {
			if e.Topic == p.Message.Topic && e.Payload == string(p.Message.Payload) && e.Retain == p.Message.Retain {
				found = i
				break
			}
		}
		if found < 0 {
			for _, e := range exp {
				if e.Payload == string(p.Message.Payload) && e.Topic == p.Message.Topic {
					return "retain-flag", fmt.Sprintf("delivery %q/%s carries retain=%t, expected %t", p.Message.Topic, clipS(string(p.Message.Payload)), p.Message.Retain, e.Retain)
				}
				if e.Payload == string(p.Message.Payload) && e.Payload != "" {
					return "altered", fmt.Sprintf("delivery of %s arrived on topic %q, expected %q", clipS(e.Payload), p.Message.Topic, e.Topic)
				}
			}
			return "unexpected-delivery", fmt.Sprintf("unexpected delivery {%q %s q%d retain=%t}", p.Message.Topic, clipS(string(p.Message.Payload)), p.Message.QOS, p.Message.Retain)
		}
		used[found]++
		if !exp[found].QOS[p.Message.QOS] {
			return "qos", fmt.Sprintf("delivery {%q %s} has QoS %d, allowed %v", p.Message.Topic, clipS(string(p.Message.Payload)), p.Message.QOS, DescribeExp(exp[found:found+1]))
		}
		if (p.Message.QOS > 0) != (p.ID != 0) {
			return "packet-id", fmt.Sprintf("delivery QoS %d with packet id %d", p.Message.QOS, p.ID)
		}
	}
	for i, e := range exp {
		if used[i] < e.Min {
			return "missing-delivery", fmt.Sprintf("expected delivery %v arrived %d times", DescribeExp(exp[i:i+1]), used[i])
		}
		if used[i] > e.Max {
			return "duplicate-delivery", fmt.Sprintf("delivery %v arrived %d times", DescribeExp(exp[i:i+1]), used[i])
		}
	}
	return "", ""
}
