package ref

import (
	"fmt"
	"sort"

	"github.com/256dpi/gomqtt/packet"
)

func clipS(s string) string {
	if len(s) > 24 {
		return s[:24] + fmt.Sprintf("…(%d)", len(s))
	}
	return s
}

// DescribeGot renders received PUBLISH packets.
func DescribeGot(ps []*packet.Publish) []string {
	var out []string
	for _, p := range ps {
		out = append(out, fmt.Sprintf("{%q %s q%d retain=%t dup=%t}", p.Message.Topic, clipS(string(p.Message.Payload)), p.Message.QOS, p.Message.Retain, p.Dup))
	}
	sort.Strings(out)
	return out
}

// DescribeExp renders expectations.
func DescribeExp(es []Expect) []string {
	var out []string
	for _, e := range es {
		var qs []int
		for q := range e.QOS {
			qs = append(qs, int(q))
		}
		sort.Ints(qs)
		out = append(out, fmt.Sprintf("{%q %s q∈%v retain=%t x%d..%d}", e.Topic, clipS(e.Payload), qs, e.Retain, e.Min, e.Max))
	}
	sort.Strings(out)
	return out
}

// CompareDeliveries matches received PUBLISH packets against expectations.
// It returns ("","") or a violation key and a description.
func CompareDeliveries(gotP []*packet.Publish, exp []Expect) (string, string) {
	used := make([]int, len(exp))
	for _, p := range gotP {
		found := -1
		for i, e := range exp {
			if e.Topic == p.Message.Topic && e.Payload == string(p.Message.Payload) && e.Retain == p.Message.Retain {
				found = i
				break
			}
		}
		if found < 0 {
			for _, e := range exp {
				if e.Payload == string(p.Message.Payload) && e.Topic == p.Message.Topic {
					return "retain-flag", fmt.Sprintf("delivery %q/%s carries retain=%t, expected %t", p.Message.Topic, clipS(string(p.Message.Payload)), p.Message.Retain, e.Retain)
				}
				if e.Payload == string(p.Message.Payload) && e.Payload != "" {
					return "altered", fmt.Sprintf("delivery of %s arrived on topic %q, expected %q", clipS(e.Payload), p.Message.Topic, e.Topic)
				}
			}
			return "unexpected-delivery", fmt.Sprintf("unexpected delivery {%q %s q%d retain=%t}", p.Message.Topic, clipS(string(p.Message.Payload)), p.Message.QOS, p.Message.Retain)
		}
		used[found]++
		if !exp[found].QOS[p.Message.QOS] {
			return "qos", fmt.Sprintf("delivery {%q %s} has QoS %d, allowed %v", p.Message.Topic, clipS(string(p.Message.Payload)), p.Message.QOS, DescribeExp(exp[found:found+1]))
		}
		if (p.Message.QOS > 0) != (p.ID != 0) {
			return "packet-id", fmt.Sprintf("delivery QoS %d with packet id %d", p.Message.QOS, p.ID)
		}
	}
	for i, e := range exp {
		if used[i] < e.Min {
			return "missing-delivery", fmt.Sprintf("expected delivery %v arrived %d times", DescribeExp(exp[i:i+1]), used[i])
		}
		if used[i] > e.Max {
			return "duplicate-delivery", fmt.Sprintf("delivery %v arrived %d times", DescribeExp(exp[i:i+1]), used[i])
		}
	}
	return "", ""
}
