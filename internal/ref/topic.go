package ref

import "strings"

// Matches reports whether an MQTT 3.1.1 topic filter matches a topic name
// (§4.7): '+' stands for exactly one level, a trailing '#' for zero or more
// levels including the parent level, levels may be empty, a leading '/' is
// significant, comparison is byte-exact. No '$' rule (the property has none).
func Matches(filter, name string) bool {
	f := strings.Split(filter, "/")
	n := strings.Split(name, "/")
	for i, seg := range f {
		if seg == "#" && i == len(f)-1 {
			return true
		}
		if i >= len(n) {
			return false
		}
		if seg != "+" && seg != n[i] {
			return false
		}
	}
	return len(f) == len(n)
}
