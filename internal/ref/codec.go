// Package ref holds the independent reference models. codec.go is an MQTT
// 3.1.1 encoder/decoder written from the specification tables; it shares only
// the exported packet struct types with the library (as the value
// representation) and calls none of its coding functions.
package ref

import (
	"errors"
	"fmt"

	"github.com/256dpi/gomqtt/packet"
)

// ---------------------------------------------------------------- encoding

func putStr(b []byte, s string) []byte {
	b = append(b, byte(len(s)>>8), byte(len(s)))
	return append(b, s...)
}

func putVarint(b []byte, n int) []byte {
	for {
		d := byte(n % 128)
		n /= 128
		if n > 0 {
			d |= 0x80
		}
		b = append(b, d)
		if n == 0 {
			return b
		}
	}
}

// MaxRemaining is the largest remaining length MQTT can express.
const MaxRemaining = 268435455

// Encode returns the specification's byte layout for a well-formed packet.
func Encode(p packet.Generic) ([]byte, error) {
	var first byte
	var body []byte
	switch v := p.(type) {
	case *packet.Connect:
		first = 1 << 4
		ver := v.Version
		if ver == 0 {
			ver = 4
		}
		if ver == 3 {
			body = putStr(body, "MQIsdp")
		} else {
			body = putStr(body, "MQTT")
		}
		body = append(body, ver)
		var fl byte
		if v.Username != "" {
			fl |= 0x80
		}
		if v.Password != "" {
			fl |= 0x40
		}
		if v.Will != nil {
			fl |= 0x04 | byte(v.Will.QOS)<<3
			if v.Will.Retain {
				fl |= 0x20
			}
		}
		if v.CleanSession {
			fl |= 0x02
		}
		body = append(body, fl, byte(v.KeepAlive>>8), byte(v.KeepAlive))
		body = putStr(body, v.ClientID)
		if v.Will != nil {
			body = putStr(body, v.Will.Topic)
			body = append(body, byte(len(v.Will.Payload)>>8), byte(len(v.Will.Payload)))
			body = append(body, v.Will.Payload...)
		}
		if v.Username != "" {
			body = putStr(body, v.Username)
		}
		if v.Password != "" {
			body = putStr(body, v.Password)
		}
	case *packet.Connack:
		first = 2 << 4
		var sp byte
		if v.SessionPresent {
			sp = 1
		}
		body = []byte{sp, byte(v.ReturnCode)}
	case *packet.Publish:
		first = 3<<4 | byte(v.Message.QOS)<<1
		if v.Dup {
			first |= 8
		}
		if v.Message.Retain {
			first |= 1
		}
		body = putStr(make([]byte, 0, 4+len(v.Message.Topic)+len(v.Message.Payload)), v.Message.Topic)
		if v.Message.QOS > 0 {
			body = append(body, byte(v.ID>>8), byte(v.ID))
		}
		body = append(body, v.Message.Payload...)
	case *packet.Puback:
		first, body = 4<<4, []byte{byte(v.ID >> 8), byte(v.ID)}
	case *packet.Pubrec:
		first, body = 5<<4, []byte{byte(v.ID >> 8), byte(v.ID)}
	case *packet.Pubrel:
		first, body = 6<<4|2, []byte{byte(v.ID >> 8), byte(v.ID)}
	case *packet.Pubcomp:
		first, body = 7<<4, []byte{byte(v.ID >> 8), byte(v.ID)}
	case *packet.Subscribe:
		first = 8<<4 | 2
		body = []byte{byte(v.ID >> 8), byte(v.ID)}
		for _, s := range v.Subscriptions {
			body = putStr(body, s.Topic)
			body = append(body, byte(s.QOS))
		}
	case *packet.Suback:
		first = 9 << 4
		body = []byte{byte(v.ID >> 8), byte(v.ID)}
		for _, c := range v.ReturnCodes {
			body = append(body, byte(c))
		}
	case *packet.Unsubscribe:
		first = 10<<4 | 2
		body = []byte{byte(v.ID >> 8), byte(v.ID)}
		for _, t := range v.Topics {
			body = putStr(body, t)
		}
	case *packet.Unsuback:
		first, body = 11<<4, []byte{byte(v.ID >> 8), byte(v.ID)}
	case *packet.Pingreq:
		first = 12 << 4
	case *packet.Pingresp:
		first = 13 << 4
	case *packet.Disconnect:
		first = 14 << 4
	default:
		return nil, fmt.Errorf("ref: unknown packet type %T", p)
	}
	if len(body) > MaxRemaining {
		return nil, errors.New("ref: remaining length exceeds 268435455")
	}
	out := make([]byte, 0, 5+len(body))
	out = append(out, first)
	out = putVarint(out, len(body))
	return append(out, body...), nil
}

// ---------------------------------------------------------------- decoding

// Header is the parsed fixed header.
type Header struct {
	Type   byte
	Flags  byte
	RL     int // remaining length
	HL     int // header length (1 + length bytes)
	LenLen int
}

// ErrShort means more bytes are needed to parse the fixed header.
var ErrShort = errors.New("ref: header incomplete")

// ParseHeader reads the fixed header. The length field has 1-4 bytes; a
// continuation bit on the 4th byte is malformed. Non-minimal encodings are
// accepted (MQTT 3.1.1 does not forbid them; stated leniency).
func ParseHeader(b []byte) (Header, error) {
	if len(b) < 2 {
		return Header{}, ErrShort
	}
	h := Header{Type: b[0] >> 4, Flags: b[0] & 0x0f}
	mult := 1
	for i := 1; ; i++ {
		if i > 4 {
			return h, errors.New("ref: remaining length longer than 4 bytes")
		}
		if i >= len(b) {
			return h, ErrShort
		}
		h.RL += int(b[i]&0x7f) * mult
		mult *= 128
		if b[i]&0x80 == 0 {
			h.LenLen = i
			h.HL = 1 + i
			return h, nil
		}
	}
}

type rd struct {
	b   []byte
	pos int
	err error
}

func (r *rd) u8() byte {
	if r.err != nil {
		return 0
	}
	if r.pos+1 > len(r.b) {
		r.err = errors.New("ref: truncated")
		return 0
	}
	v := r.b[r.pos]
	r.pos++
	return v
}
func (r *rd) u16() int { hi := r.u8(); lo := r.u8(); return int(hi)<<8 | int(lo) }
func (r *rd) bytes() []byte {
	n := r.u16()
	if r.err != nil {
		return nil
	}
	if r.pos+n > len(r.b) {
		r.err = errors.New("ref: truncated field")
		return nil
	}
	v := append([]byte(nil), r.b[r.pos:r.pos+n]...)
	r.pos += n
	return v
}
func (r *rd) str() string { return string(r.bytes()) }
func (r *rd) rest() int   { return len(r.b) - r.pos }

var wantFlags = map[byte]byte{1: 0, 2: 0, 4: 0, 5: 0, 6: 2, 7: 0, 8: 2, 9: 0, 10: 2, 11: 0, 12: 0, 13: 0, 14: 0}

// Decode decodes exactly one packet occupying the whole of b (the packet
// framed to its header-declared extent). The leniencies of the library that
// the specification would not grant are listed in DESIGN.md §C02 and are the
// only ones implemented here.
func Decode(b []byte) (packet.Generic, error) {
	h, err := ParseHeader(b)
	if err != nil {
		return nil, err
	}
	if h.Type < 1 || h.Type > 14 {
		return nil, errors.New("ref: reserved packet type")
	}
	if h.HL+h.RL != len(b) {
		return nil, fmt.Errorf("ref: remaining length %d does not match buffer %d", h.RL, len(b)-h.HL)
	}
	if h.Type != 3 && h.Flags != wantFlags[h.Type] {
		return nil, errors.New("ref: reserved flag bits")
	}
	r := &rd{b: b[h.HL:]}
	id := func() packet.ID {
		v := packet.ID(r.u16())
		if r.err == nil && v == 0 {
			r.err = errors.New("ref: packet id 0")
		}
		return v
	}
	var out packet.Generic
	switch h.Type {
	case 1:
		c := &packet.Connect{}
		name := r.str()
		lvl := r.u8()
		if r.err == nil && !((name == "MQTT" && lvl == 4) || (name == "MQIsdp" && lvl == 3)) {
			return nil, errors.New("ref: protocol name/level")
		}
		c.Version = lvl
		fl := r.u8()
		if r.err != nil {
			return nil, r.err
		}
		if fl&1 != 0 {
			return nil, errors.New("ref: connect reserved flag")
		}
		will, wq, wr := fl&4 != 0, (fl>>3)&3, fl&0x20 != 0
		if wq > 2 {
			return nil, errors.New("ref: will qos 3")
		}
		if !will && (wq != 0 || wr) {
			return nil, errors.New("ref: will qos/retain without will")
		}
		user, pass := fl&0x80 != 0, fl&0x40 != 0
		if pass && !user {
			return nil, errors.New("ref: password without username")
		}
		c.CleanSession = fl&2 != 0
		c.KeepAlive = uint16(r.u16())
		c.ClientID = r.str()
		if r.err == nil && c.ClientID == "" && !c.CleanSession {
			return nil, errors.New("ref: empty client id needs clean session")
		}
		if will {
			c.Will = &packet.Message{QOS: packet.QOS(wq), Retain: wr}
			c.Will.Topic = r.str()
			if r.err == nil && c.Will.Topic == "" {
				return nil, errors.New("ref: empty will topic")
			}
			c.Will.Payload = r.bytes()
		}
		if user {
			c.Username = r.str()
		}
		if pass {
			c.Password = r.str()
		}
		out = c
	case 2:
		if h.RL != 2 {
			return nil, errors.New("ref: connack length")
		}
		f, code := r.u8(), r.u8()
		if f&0xfe != 0 || code > 5 {
			return nil, errors.New("ref: connack flags/code")
		}
		out = &packet.Connack{SessionPresent: f&1 == 1, ReturnCode: packet.ConnackCode(code)}
	case 3:
		p := &packet.Publish{}
		q := (h.Flags >> 1) & 3
		if q == 3 {
			return nil, errors.New("ref: qos 3")
		}
		p.Dup, p.Message.Retain, p.Message.QOS = h.Flags&8 != 0, h.Flags&1 != 0, packet.QOS(q)
		p.Message.Topic = r.str()
		if r.err == nil && p.Message.Topic == "" {
			return nil, errors.New("ref: empty topic name")
		}
		if q > 0 {
			p.ID = id()
		}
		if r.err == nil && r.rest() > 0 {
			p.Message.Payload = append([]byte(nil), r.b[r.pos:]...)
			r.pos = len(r.b)
		}
		out = p
	case 4, 5, 6, 7, 11:
		if h.RL != 2 {
			return nil, errors.New("ref: ack length")
		}
		v := id()
		switch h.Type {
		case 4:
			out = &packet.Puback{ID: v}
		case 5:
			out = &packet.Pubrec{ID: v}
		case 6:
			out = &packet.Pubrel{ID: v}
		case 7:
			out = &packet.Pubcomp{ID: v}
		case 11:
			out = &packet.Unsuback{ID: v}
		}
	case 8:
		s := &packet.Subscribe{ID: id()}
		for r.err == nil && r.rest() > 0 {
			t := r.str()
			q := r.u8()
			if r.err == nil && q > 2 {
				return nil, errors.New("ref: requested qos")
			}
			s.Subscriptions = append(s.Subscriptions, packet.Subscription{Topic: t, QOS: packet.QOS(q)})
		}
		if r.err == nil && len(s.Subscriptions) == 0 {
			return nil, errors.New("ref: empty subscribe")
		}
		out = s
	case 9:
		s := &packet.Suback{ID: id()}
		for r.err == nil && r.rest() > 0 {
			c := r.u8()
			if c > 2 && c != 0x80 {
				return nil, errors.New("ref: suback code")
			}
			s.ReturnCodes = append(s.ReturnCodes, packet.QOS(c))
		}
		if r.err == nil && len(s.ReturnCodes) == 0 {
			return nil, errors.New("ref: empty suback")
		}
		out = s
	case 10:
		u := &packet.Unsubscribe{ID: id()}
		for r.err == nil && r.rest() > 0 {
			u.Topics = append(u.Topics, r.str())
		}
		if r.err == nil && len(u.Topics) == 0 {
			return nil, errors.New("ref: empty unsubscribe")
		}
		out = u
	case 12, 13, 14:
		if h.RL != 0 {
			return nil, errors.New("ref: length of empty packet")
		}
		switch h.Type {
		case 12:
			out = &packet.Pingreq{}
		case 13:
			out = &packet.Pingresp{}
		case 14:
			out = &packet.Disconnect{}
		}
	}
	if r.err != nil {
		return nil, r.err
	}
	if r.rest() != 0 {
		return nil, errors.New("ref: bytes left inside the declared extent")
	}
	return out, nil
}
