package ref

import (
	"fmt"
	"strings"

	"github.com/256dpi/gomqtt/packet"
)

func short(b []byte) string {
	if len(b) <= 40 {
		return fmt.Sprintf("%x", b)
	}
	// length + cheap checksum + edges keeps canonical strings small but sensitive
	var s1, s2 uint32 = 1, 0
	for _, c := range b {
		s1 = (s1 + uint32(c)) % 65521
		s2 = (s2 + s1) % 65521
	}
	return fmt.Sprintf("%x..%x(len=%d,adler=%08x)", b[:16], b[len(b)-16:], len(b), s2<<16|s1)
}

func compress(s string) string {
	if len(s) <= 800 {
		return s
	}
	return s[:300] + " …" + short([]byte(s))
}

// Canon renders every field of a packet in a canonical form. Normalisation:
// Connect.Version 0 ≡ 4, nil ≡ empty payload / list.
func Canon(p packet.Generic) string {
	switch v := p.(type) {
	case nil:
		return "<nil>"
	case *packet.Connect:
		ver := v.Version
		if ver == 0 {
			ver = 4
		}
		w := "nil"
		if v.Will != nil {
			w = fmt.Sprintf("{t=%s p=%s q=%d r=%t}", short([]byte(v.Will.Topic)), short(v.Will.Payload), v.Will.QOS, v.Will.Retain)
		}
		return fmt.Sprintf("CONNECT id=%s ka=%d user=%s pass=%s clean=%t will=%s ver=%d",
			short([]byte(v.ClientID)), v.KeepAlive, short([]byte(v.Username)), short([]byte(v.Password)), v.CleanSession, w, ver)
	case *packet.Connack:
		return fmt.Sprintf("CONNACK sp=%t code=%d", v.SessionPresent, v.ReturnCode)
	case *packet.Publish:
		return fmt.Sprintf("PUBLISH id=%d dup=%t t=%s p=%s q=%d r=%t", v.ID, v.Dup,
			short([]byte(v.Message.Topic)), short(v.Message.Payload), v.Message.QOS, v.Message.Retain)
	case *packet.Puback:
		return fmt.Sprintf("PUBACK id=%d", v.ID)
	case *packet.Pubrec:
		return fmt.Sprintf("PUBREC id=%d", v.ID)
	case *packet.Pubrel:
		return fmt.Sprintf("PUBREL id=%d", v.ID)
	case *packet.Pubcomp:
		return fmt.Sprintf("PUBCOMP id=%d", v.ID)
	case *packet.Unsuback:
		return fmt.Sprintf("UNSUBACK id=%d", v.ID)
	case *packet.Subscribe:
		var sb strings.Builder
		fmt.Fprintf(&sb, "SUBSCRIBE id=%d n=%d", v.ID, len(v.Subscriptions))
		for _, s := range v.Subscriptions {
			fmt.Fprintf(&sb, " [%s q=%d]", short([]byte(s.Topic)), s.QOS)
		}
		return compress(sb.String())
	case *packet.Suback:
		b := make([]byte, len(v.ReturnCodes))
		for i, c := range v.ReturnCodes {
			b[i] = byte(c)
		}
		return fmt.Sprintf("SUBACK id=%d codes=%s", v.ID, short(b))
	case *packet.Unsubscribe:
		var sb strings.Builder
		fmt.Fprintf(&sb, "UNSUBSCRIBE id=%d n=%d", v.ID, len(v.Topics))
		for _, s := range v.Topics {
			fmt.Fprintf(&sb, " [%s]", short([]byte(s)))
		}
		return compress(sb.String())
	case *packet.Pingreq:
		return "PINGREQ"
	case *packet.Pingresp:
		return "PINGRESP"
	case *packet.Disconnect:
		return "DISCONNECT"
	}
	return fmt.Sprintf("?%T", p)
}

// Kind is a short name for the packet kind (event traces).
func Kind(p packet.Generic) string {
	if p == nil {
		return "nil"
	}
	return strings.ToUpper(p.Type().String())
}

// Clone returns an independent copy of a packet (via the reference codec), so
// that event logs are not affected by later mutation of the original.
func Clone(p packet.Generic) packet.Generic {
	if p == nil {
		return nil
	}
	b, err := Encode(p)
	if err != nil {
		return p
	}
	q, err := Decode(b)
	if err != nil {
		return p
	}
	return q
}
