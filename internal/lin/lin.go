// Package lin records call/return histories at an API boundary with one
// logical clock, for porcupine.
package lin

import (
	"sync"
	"sync/atomic"
	"time"

	"github.com/anishathalye/porcupine"
)

// Recorder collects operations from several goroutines.
type Recorder struct {
	clock int64
	mu    sync.Mutex
	ops   []porcupine.Operation
}

// Do records the call, runs fn, records the return with fn's output.
func (r *Recorder) Do(client int, input interface{}, fn func() interface{}) interface{} {
	call := atomic.AddInt64(&r.clock, 1)
	out := fn()
	ret := atomic.AddInt64(&r.clock, 1)
	r.mu.Lock()
	r.ops = append(r.ops, porcupine.Operation{ClientId: client, Input: input, Call: call, Output: out, Return: ret})
	r.mu.Unlock()
	return out
}

// Ops returns the recorded history.
func (r *Recorder) Ops() []porcupine.Operation {
	r.mu.Lock()
	defer r.mu.Unlock()
	return append([]porcupine.Operation(nil), r.ops...)
}

// Check runs porcupine with a timeout. Result: "ok", "illegal", "unknown".
func Check(m porcupine.Model, ops []porcupine.Operation, timeout time.Duration) string {
	switch porcupine.CheckOperationsTimeout(m, ops, timeout) {
	case porcupine.Ok:
		return "ok"
	case porcupine.Illegal:
		return "illegal"
	}
	return "unknown"
}
