// Package ch is the client-library harness: a client.Dialer that hands the
// library an in-memory connection (wrapped by the logging/fault-injecting
// FConn) whose other end is a scripted broker peer speaking through the
// reference codec, and a recording / fault-injecting client.Session wrapper.
package ch

import (
	"errors"
	"fmt"
	"sync"
	"time"

	"github.com/256dpi/gomqtt/client"
	"github.com/256dpi/gomqtt/packet"
	"github.com/256dpi/gomqtt/session"
	"github.com/256dpi/gomqtt/transport"

	"verif/internal/bh"
	"verif/internal/wire"
)

// ErrRefused is returned by a refused dial.
var ErrRefused = errors.New("dial refused (scripted)")

// Conn is one dialled connection.
type Conn struct {
	N    int
	Peer *bh.Peer  // scripted broker side
	FC   *bh.FConn // what the client library holds
	CEnd *wire.End // client-side end
	SEnd *wire.End // server-side end
}

// Server is the scripted broker: every Dial creates a fresh connection.
type Server struct {
	Log *bh.Log
	// OnDial may refuse the n-th dial (1-based) by returning an error.
	OnDial func(n int) error
	// Prep configures the n-th connection before anything runs on it: set
	// c.Peer.AutoReply (scripted broker behaviour) and faults on c.FC.
	Prep func(c *Conn)

	mu    sync.Mutex
	cond  *sync.Cond
	dials int
	conns []*Conn
}

// NewServer returns a scripted broker with its own event log.
func NewServer() *Server {
	s := &Server{Log: &bh.Log{}}
	s.cond = sync.NewCond(&s.mu)
	return s
}

// Dial implements client.Dialer.
func (s *Server) Dial(url string) (transport.Conn, error) {
	s.mu.Lock()
	s.dials++
	n := s.dials
	s.mu.Unlock()
	s.Log.Add(fmt.Sprintf("dial#%d", n), "dial", nil, url)
	if s.OnDial != nil {
		if err := s.OnDial(n); err != nil {
			s.Log.Add(fmt.Sprintf("dial#%d", n), "dial-refused", nil, err.Error())
			return nil, err
		}
	}
	ce, se := wire.Pair()
	c := &Conn{N: n, CEnd: ce, SEnd: se}
	c.FC = bh.NewFConn(wire.NewConn(ce), fmt.Sprintf("cli#%d", n), s.Log, "csend", "crecv")
	c.Peer = bh.NewPeer(fmt.Sprintf("srv#%d", n), se, s.Log)
	c.Peer.SendKind, c.Peer.RecvKind = "ssend", "srecv"
	if s.Prep != nil {
		s.Prep(c)
	}
	c.Peer.Start()
	s.mu.Lock()
	s.conns = append(s.conns, c)
	s.cond.Broadcast()
	s.mu.Unlock()
	return c.FC, nil
}

// Dials returns the number of Dial calls so far.
func (s *Server) Dials() int {
	s.mu.Lock()
	defer s.mu.Unlock()
	return s.dials
}

// Conns returns the connections created so far.
func (s *Server) Conns() []*Conn {
	s.mu.Lock()
	defer s.mu.Unlock()
	return append([]*Conn(nil), s.conns...)
}

// WaitConn waits for the k-th (1-based) successfully dialled connection.
func (s *Server) WaitConn(k int, d time.Duration) *Conn {
	deadline := time.Now().Add(d)
	t := time.AfterFunc(d, func() { s.mu.Lock(); s.cond.Broadcast(); s.mu.Unlock() })
	defer t.Stop()
	s.mu.Lock()
	defer s.mu.Unlock()
	for len(s.conns) < k {
		if !time.Now().Before(deadline) {
			return nil
		}
		s.cond.Wait()
	}
	return s.conns[k-1]
}

var _ client.Dialer = (*Server)(nil)

// Broker returns a well-behaved scripted-broker AutoReply: CONNACK(0) with the
// given session-present flag, PUBACK, PUBREC, PUBCOMP on PUBREL, PUBREL on
// PUBREC, SUBACK with the requested QoS, UNSUBACK, PINGRESP. filter may veto
// or replace the replies for a packet (nil keeps the default).
func Broker(sessionPresent bool, filter func(in packet.Generic, def []packet.Generic) []packet.Generic) func(packet.Generic) []packet.Generic {
	return func(g packet.Generic) []packet.Generic {
		var def []packet.Generic
		switch v := g.(type) {
		case *packet.Connect:
			def = []packet.Generic{&packet.Connack{SessionPresent: sessionPresent}}
		case *packet.Publish:
			if v.Message.QOS == 1 {
				def = []packet.Generic{&packet.Puback{ID: v.ID}}
			} else if v.Message.QOS == 2 {
				def = []packet.Generic{&packet.Pubrec{ID: v.ID}}
			}
		case *packet.Pubrel:
			def = []packet.Generic{&packet.Pubcomp{ID: v.ID}}
		case *packet.Pubrec:
			def = []packet.Generic{&packet.Pubrel{ID: v.ID}}
		case *packet.Subscribe:
			sa := &packet.Suback{ID: v.ID}
			for _, s := range v.Subscriptions {
				sa.ReturnCodes = append(sa.ReturnCodes, s.QOS)
			}
			def = []packet.Generic{sa}
		case *packet.Unsubscribe:
			def = []packet.Generic{&packet.Unsuback{ID: v.ID}}
		case *packet.Pingreq:
			def = []packet.Generic{&packet.Pingresp{}}
		}
		if filter != nil {
			return filter(g, def)
		}
		return def
	}
}

// ---------------------------------------------------------------- session

// ErrSession is the injected session failure.
var ErrSession = errors.New("injected session failure")

// SessFault makes the K-th call (1-based) of a method fail.
type SessFault struct {
	Method string // NextID SavePacket LookupPacket DeletePacket AllPackets Reset
	K      int
}

// Session wraps a client.Session: records every operation in the event log
// and can inject failures.
type Session struct {
	Inner *session.MemorySession
	Log   *bh.Log
	Name  string

	// OnNextID is called (outside all locks) at the start of the n-th NextID call.
	OnNextID func(n int)

	mu     sync.Mutex
	op     sync.Mutex // serialises operations together with their log entries
	calls  map[string]int
	faults []SessFault
}

// NewSession wraps a fresh MemorySession.
func NewSession(log *bh.Log) *Session {
	return &Session{Inner: session.NewMemorySession(), Log: log, Name: "session", calls: map[string]int{}}
}

// AddFault schedules a failure.
func (s *Session) AddFault(f SessFault) {
	s.mu.Lock()
	s.faults = append(s.faults, f)
	s.mu.Unlock()
}

func (s *Session) hit(method string) bool {
	s.mu.Lock()
	defer s.mu.Unlock()
	s.calls[method]++
	for _, f := range s.faults {
		if f.Method == method && f.K == s.calls[method] {
			return true
		}
	}
	return false
}

func dirName(d session.Direction) string {
	if d == session.Incoming {
		return "in"
	}
	return "out"
}

func (s *Session) NextID() packet.ID {
	s.mu.Lock()
	s.calls["NextID"]++
	n := s.calls["NextID"]
	h := s.OnNextID
	s.mu.Unlock()
	if h != nil {
		h(n) // a slow session store: the scenario may let the connection die meanwhile
	}
	return s.Inner.NextID()
}

func (s *Session) SavePacket(d session.Direction, p packet.Generic) error {
	if s.hit("SavePacket") {
		s.Log.Add(s.Name, "sess:save-error:"+dirName(d), p, "")
		return ErrSession
	}
	// the log entry is made atomically with the change it reports: a reader
	// (AllPackets during the replay of a resumed session) cannot see the packet
	// before "sess:save" is in the log
	s.op.Lock()
	defer s.op.Unlock()
	err := s.Inner.SavePacket(d, p)
	s.Log.Add(s.Name, "sess:save:"+dirName(d), p, "")
	return err
}

func (s *Session) LookupPacket(d session.Direction, id packet.ID) (packet.Generic, error) {
	if s.hit("LookupPacket") {
		return nil, ErrSession
	}
	s.op.Lock()
	defer s.op.Unlock()
	return s.Inner.LookupPacket(d, id)
}

func (s *Session) DeletePacket(d session.Direction, id packet.ID) error {
	if s.hit("DeletePacket") {
		s.Log.Add(s.Name, "sess:delete-error:"+dirName(d), nil, fmt.Sprint(id))
		return ErrSession
	}
	s.op.Lock()
	defer s.op.Unlock()
	err := s.Inner.DeletePacket(d, id)
	s.Log.Add(s.Name, "sess:delete:"+dirName(d), nil, fmt.Sprint(id))
	return err
}

func (s *Session) AllPackets(d session.Direction) ([]packet.Generic, error) {
	if s.hit("AllPackets") {
		return nil, ErrSession
	}
	s.op.Lock()
	defer s.op.Unlock()
	return s.Inner.AllPackets(d)
}

func (s *Session) Reset() error {
	if s.hit("Reset") {
		return ErrSession
	}
	s.op.Lock()
	defer s.op.Unlock()
	s.Log.Add(s.Name, "sess:reset", nil, "")
	return s.Inner.Reset()
}

var _ client.Session = (*Session)(nil)

// Config returns a client config that dials the scripted broker.
func Config(s *Server, id string, clean bool) *client.Config {
	c := client.NewConfigWithClientID("tcp://scripted:1883", id)
	c.Dialer = s
	c.CleanSession = clean
	c.KeepAlive = "0s"
	c.MaxWriteDelay = 0
	return c
}
