#!/usr/bin/env python3
"""Generates /verif/MANIFEST.json from the table below (kept next to the checks)."""
import json, os
ROOT = os.path.dirname(os.path.dirname(os.path.abspath(__file__)))
CHECKS = {
 "C01": ("exploration", "differential vs independent reference encoder; buffer canaries; decode-back; stream encoder/decoder comparison",
         "bounded-exhaustive over type x flag matrix x varint-boundary remaining lengths x boundary field lengths/ids plus 150k (quick) / 8M (thorough) random values per run; every value compared byte-for-byte with ref/codec",
         "trusts internal/ref/codec.go as the reading of MQTT 3.1.1; built without -race (sequential property) but with -d=checkptr", "2-C01"),
 "C04": ("exploration", "differential vs reference matcher in both directions (Match on stored filters, Search on stored names)",
         "exhaustive over {a,b,empty,+,#} to depth 3 (quick) / 4 (thorough): all single pairs, all pairs of entries, whole universe in one tree; plus 3k (quick) / 400k (thorough) random sets to depth 12 with multi-byte levels, also with several values per entry and with entries stored and removed again; every result is held across the next query and then overwritten",
         "trusts internal/ref/topic.go (15 lines) as the reading of MQTT 3.1.1 §4.7 without the $ rule; built without -race (sequential property)", "2-C04"),
 "C02": ("exploration", "differential vs independent reference decoder; panic trap; locality probe (framed vs framed+junk); ownership probe (overwrite source buffer / reuse stream pool); re-encodability of admitted messages",
         "exhaustive 1-byte (quick) and 2-byte (thorough) length headers x 256 first bytes x body patterns, CONNECT field matrix (names x levels x all 256 flag bytes), structure-aware mutations of valid encodings (bit flips, byte edits, truncation at every offset, extension, splicing), 150k (quick) / 12M (thorough) random strings; every input decoded five ways and compared with ref/codec",
         "trusts internal/ref/codec.go with the leniencies listed in DESIGN.md; two Connect.Decode findings are recorded in known_findings.json; built without -race but with -d=checkptr", "2-C02"),
 "C05": ("exploration", "map reference model driven side by side with all queries after every step; trie-shape comparison with a fresh tree; snapshot re-comparison of returned slices; porcupine linearizability check of concurrent histories; Go race detector",
         "exhaustive mutation sequences of length 3 (quick) / 4 and 5 (thorough) over a 4-topic x 2-value universe, random sequences to length 400, 2.5k (quick) / 50k (thorough) concurrent histories of 2-16 goroutines",
         "porcupine v1.3.0 and the Go race detector are trusted; result order and the choice of MatchFirst/SearchFirst are left free", "2-C05"),
 "C18": ("exploration", "reference successor function over all 65536 counter states; distinctness walks; concurrent draws across the wrap; map model of the packet store over bounded-exhaustive op sequences; porcupine (partitioned by direction,id); Go race detector",
         "all 65536 counter states (one step), 256 (quick) / all 65536 (thorough) full 65535-draw walks, 8k/100k concurrent rounds at the wrap-around, store op sequences to length 3/4 over 25 operations with full-state comparison, 60/1500 bulk histories with up to 400 ids and hundreds live per direction, 4k/60k concurrent store histories",
         "MemorySession.Reset is exercised sequentially only (it spans both stores and the counter and is not claimed atomic across directions); concurrently the per-direction PacketStore.Reset is used", "2-C18"),
 "C03": ("exploration", "sequence and byte equality under scheduled fragmentation (chunking reader, in-memory wire, raw TCP writes, raw WebSocket messages); pull and allocation counters for the read limit; truncation probes",
         "every single/pair of split points of short streams, PRNG chunking of long streams with packets around 4096 bytes, all async/sync patterns of <=6 sends x 3 flush delays, BaseConn both directions, TCP and WebSocket loopback (half of the exchanges with the read limit equal to the largest packet), WebSocket exchanges of in-limit packets followed by one oversized packet under three message splittings",
         "expected bytes come from internal/ref/codec.go; loopback networking must be available (else that part is reported inconclusive)", "2-C03"),
 "C06": ("exploration", "reference delivery model compared with the PUBLISH multisets received by scripted peers behind FIFO marker fences (sequential), event-log-order oracle for concurrent runs",
         "120 (quick) / 2500 (thorough) sequential histories of 20-40 operations over 1-6 clients and a topic/filter universe that includes empty levels (a//b, a/b/, /a) checked after every operation, 40 / 1000 concurrent runs of 2-6 clients with backend-boundary perturbation, 15 / 300 burst runs (subscriber pauses reading, session queue 4)",
         "peers acknowledge everything and keep reading; offline/resume behaviour belongs to C08; in concurrent runs a delivery may carry the uncapped publish QoS when the client's own unsubscribe fell between publish and delivery (recorded, not asserted)", "2-C06"),
 "C20": ("exploration", "wire byte recorder (zero bytes before CONNECT), per-connection backend hook trace, response multiset matching behind a SUBSCRIBE fence through the ack queue",
         "exhaustive over all packet-kind sequences of length 1-3 x 4 credential situations written in one burst, hostile first frames, 1.5k (quick) / 120k (thorough) random pipelines of up to 40 packets with repeating ids",
         "acknowledgements that travel through the ack queue for requests preceding a connection-closing packet in the same burst may be lost with the connection; CONNACK and PINGRESP must still arrive; nothing unsolicited may appear", "2-C20"),
 "C11": ("exploration", "reference retained-map model; probe subscribers, live observer, offline persistent subscriber and '#' checkpoints compared behind marker fences",
         "120 (quick) / 2500 (thorough) histories of 14-28 steps: retained/plain/empty publishes, retained wills of dropped victims, subscriptions cycling through all 105 filters of the depth<=3 universe; 12/120 stalled-victim runs (own queue full, retained will must survive); 150 (quick) / 3000 (thorough) concurrent runs in which 3-8 subscribers subscribe while a publisher streams 40-100 numbered retained values under backend load (replayed value + live values must be gap-free)",
         "per-filter replay of one SUBSCRIBE may arrive 1..k times; QoS 0 publishes for an offline persistent subscriber may be dropped", "2-C11"),
 "C07": ("fault_enumeration", "offline checkers over the recorded event log (backend ack -> PUBACK/PUBCOMP order, three-state QoS 2 receiver model driven by the broker's own received-packet report, hand-over counts) plus a pre-send assertion on the session for PUBREC and a SUBACK fence through the ack queue",
         "every publisher script of length <=3 (quick) / <=4 plus 1200 sampled of length 5 (thorough) x every single connection-fault position (all positions up to length 2 in quick / 3 in thorough, every 2nd-3rd position with a moving offset beyond) (k-th Send/Receive, before/after, per connection) x backend ack mode {sync, late, never} x backend refusing the k-th hand-over; held-late-ack scenarios; scripts over two QoS 1 and two QoS 2 ids with every acknowledgement fired while the broker is inside Backend.Publish for the next message; fault-free runs with as few publish tokens as the script needs (the broker must never end a connection of the well-behaved publisher by itself)",
         "what the broker received is taken from Log(PacketReceived); one finding (second hand-over while the first is still unacknowledged) is recorded in known_findings.json", "2-C07"),
 "C08": ("fault_enumeration", "pre-send assertion on the live session (store-before-send), model of sent-and-unacknowledged packets driven by broker-side sends and the broker's received-packet report compared with the session store at connection ends, retransmission/DUP check after resume, no-second-non-duplicate check, no new message under a packet id still in flight, end-to-end no-loss check, stored-session model driven by the backend's Setup",
         "90 (quick) / 1200 (thorough) base scenarios (window 1-3, 1..window+2 messages QoS 1/2, offline messages, subscriber behaviour vectors over ack/withhold/drop on first and resumed connection, clean/unclean second connect, a quarter with the subscriber publishing QoS 2 messages under the ids in flight towards it) x every single fault position on each subscriber connection (all positions for a third of the scenarios in quick)",
         "workloads stay inside SessionQueueSize; the amount delivered before a loss depends on scheduling (the model is event-driven, so this only varies coverage)", "2-C08"),
 "C16": ("exploration", "online inflight counter at the scripted subscriber (never above the window, retransmissions included), two-queue marker drain check, token conservation at quiescence through the VerifTokens hook",
         "1200 (quick) / 20000 (thorough) streams: windows 1-10, 1..20 x window messages, QoS mixes incl. pure QoS 0, batched / reversed / half-way QoS 2 acknowledgement policies, drop+resume at a PRNG point; 12/120 idle-first runs (idle longer than the token timeout, then saturate the window and acknowledge in time)",
         "the subscriber only acknowledges what it received and releases withheld acknowledgements when its window is full; hook commit adds broker/verif_hooks.go behind the verif tag", "2-C16"),
 "C12": ("fault_enumeration", "count of Backend.Publish calls with the will's content on behalf of the dying client after its Closed() fired, cross-checked with online, offline-persistent and late (retained) observers behind marker fences",
         "full matrix of 19 termination causes x 5 protocol states (applicable pairs) x will QoS 0-2 x retain = 390 scenarios, 3 (quick) / 100 (thorough) repetitions for schedule diversity; keep-alive expiry also with a silent victim under steady outbound traffic; 24/400 runs with an online observer whose window and queue are full when the victim dies; 12/200 runs with a victim whose own queue is full (retained will)",
         "DISCONNECT racing with another cause is judged by what the broker logged as received; a processor blocked on a token ends at the token timeout", "2-C12"),
 "C13": ("exploration", "online assertions at the backend boundary (Setup return: no other set-up client of the id without Terminate; CONNACK pre-send: every older client of the id terminated), PINGREQ liveness probe (exactly one survivor), session-present replay in recorded Setup order, Terminate counts, displaced will count, VerifSnapshot bookkeeping, no-loss/no-second-new-delivery for persistent parties, goroutine-profile stuck detector, race detector",
         "1200 (quick) / 25000 (thorough) rounds of 2-8 simultaneous CONNECTs with one id (clean/unclean mixed) against an absent / idle / mid-handshake / token-starved / PUBREL-sending / concurrently dying old connection with concurrent QoS 1 traffic and backend-boundary perturbation; 2-6 blocked-in-send rounds (known finding)",
         "schedules are those the Go scheduler produces under perturbation (evidence counts distinct Setup orders); the blocked-in-send deadlock is a recorded known finding", "2-C13"),
 "C14": ("exploration", "child-process liveness with a crash journal, two witness clients exchanging numbered QoS 0/1/2 traffic and PINGs after every group of hostile streams, Closed() and Setup/Terminate pairing for every hostile connection, VerifSnapshot bookkeeping, goroutine census at final quiescence",
         "24 (quick) / 500 (thorough) brokers x 36 hostile streams of 9 kinds run 6 at a time with backend-boundary perturbation; MemoryBackend.Close at every backend hook-call index 1..40 of two concurrent sessions; every backend hook failing at its 1st-4th call before/after; takeover hitting KillTimeout",
         "hostile peers keep reading and never use a witness's client id; process death is turned into a violation by the driver from the journal", "2-C14"),
 "C15": ("exploration", "sequence numbers in payloads with an offline order checker per (publisher, publish QoS, delivered QoS, subscriber); retransmission order compared with the sender-side send log of the previous connection (broker and client library); first-arrival order over cut-and-resume cycles; callback order and service command order against a scripted broker",
         "60/1500 end-to-end runs (1-8 pipelining publishers, 1-4 subscribers, windows 1-10, perturbation), 150/4000 broker resend runs, 200/5000 backlog cut-and-resume runs (with acknowledgements out of the middle of the window before the cut), 150/3000 client resend runs, 100/2000 client inbound runs, 60/1200 service inbound runs (backlog right after CONNACK, slow callbacks), 80/1500 service command runs, 60/1200 service command runs with the connection cut after every k-th command (quick/thorough)",
         "schedules are those produced by the Go scheduler with perturbation at the backend boundary; duplicates (DUP) are ignored for first-arrival order", "2-C15"),
 "C09": ("fault_enumeration", "offline checkers over the recorded event log of the client boundary (recording Session wrapper, logging Conn wrapper, scripted broker that logs an acknowledgement before writing it): SavePacket-before-send order, acknowledgement-before-future-success order, session content at rest, retransmission with DUP on resume; resolution poll of every future after the terminal call; goroutine-profile stuck detector around Close/Disconnect; accessor panic trap",
         "all API sequences of length <=3 (sampled length 3 in quick, plus 15000 sampled length-4 sequences with 0-8 concurrent callers in thorough) x 6 acknowledgement behaviours x 4 CONNACK behaviours x 4 terminal events x resume; for a deterministic subset every single client-side connection fault position (incl. the CONNECT) and every Session method failing at its 1st-3rd call; a slow Logger widens the send/bookkeeping window and a future whose acknowledgement the client logged as received must complete",
         "an acknowledgement of another kind carrying the live packet id is accepted as that id's acknowledgement (the client keys futures by id only); futures are polled with a retried 25 ms Wait because Wait selects randomly between a ready future and an expired timer", "2-C09"),
 "C10": ("fault_enumeration", "receiver model driven by what the client received (event log of the client boundary) compared with application callback invocations and acknowledgements written; QoS 0 marker fence through the client's single processor; completion phase retransmitting PUBREL",
         "all scripted-broker scripts of length <=3 (quick) / <=4 plus sampled length 5 with 3 ids (thorough) over {PUBLISH q2 (dup), PUBLISH q1, PUBLISH q0, PUBREL, drop+resume} x callback plans {nil, error at 1st/2nd/3rd invocation} x both callback modes x every single client-side send fault (each acknowledgement, before/after); all scripts of length <=3 over QoS 1 deliveries with and without the dup flag; scripts of length <=3 (quick) / <=4 (thorough) mixing the inbound QoS 2 handshakes with the application's own Subscribe / Unsubscribe / Publish flows under coinciding packet ids",
         "exactly-once is asserted in the default mode only; rejected deliveries are not counted; what the client received is taken from its connection's receive log (same goroutine as processing)", "2-C10"),
 "C19": ("fault_enumeration", "reassembly of (sender, seq, checksum) payloads at the peer, parsing of the recorded wire bytes into whole sent packets, logical-clock order for 'Send returned nil before Close was called', instrumented carrier with call log and fault injection, bounded-call guards with goroutine-profile confirmation, Go race detector",
         "250/6000 send-and-close cases on the in-memory wire, 40/600 on TCP and 30/400 on WebSocket loopback (1-16 senders, async/sync patterns, flush delays 0-50 ms, close after a PRNG number of sends), every k for each carrier call kind (Read/Write/Close/SetReadDeadline) x 2 flush delays, read timeouts 10-30 ms on all three carriers; 12/180 runs with 1-3 senders blocked on a non-reading peer when the receive side fails (timeout, garbage, oversized packet)",
         "peers always drain; an error injected into the SetReadTimeout call (which has no error result) is not required to be reported; loopback networking must be available", "2-C19"),
 "C17": ("fault_enumeration", "per-connection subscription set kept by the scripted broker compared with a model of all subscribe/unsubscribe calls at rest (fence publish through the FIFO command queue, bounded settling), completion of QoS>0 publish futures across reconnects, resolution poll of all futures after Stop(true), goroutine-profile stuck detector around fences and Stop, restart probe",
         "every failure schedule of length <=2 (quick, 4 repetitions) / <=3 (thorough, 30 repetitions, plus 1500 sampled schedules of length 3-5) over 7 failure kinds, with API calls before Start, racing with the failures from 1-4 goroutines and online; 150/6000 command storms racing with repeated drops; 40/2000 stop-while-offline runs; 120/6000 Start/Stop races; every other scenario with a scripted broker that reports session-present from several goroutines judged at the settled state",
         "a command taken off the queue while its client is dying is cancelled by the dispatcher (caller is told) and is accepted; subscribe/unsubscribe futures need not complete across a reconnect; service timeouts are 40 ms", "2-C17"),
}
NOT_APPLICABLE = {}
def main():
    props = [json.loads(l)["id"] for l in open(os.path.join(ROOT, "properties.jsonl"))]
    checks = []
    for pid in props:
        if pid not in CHECKS:
            continue
        level, technique, text, note, ref = CHECKS[pid]
        checks.append({
            "property_id": pid,
            "quick_cmd": "./check %s quick" % pid,
            "thorough_cmd": "./check %s thorough" % pid,
            "evidence_file": "/verif/evidence/%s.json" % pid,
            "replay_cmd_template": "./check %s --replay {path}" % pid,
            "engine": "go-runtime-monitors",
            "level_claimed": {"category": level, "text": text, "design_ref": "DESIGN.md §" + ref},
            "level_note": note,
            "technique": "runtime monitoring: " + technique,
        })
    na = [{"property_id": p, "reason": NOT_APPLICABLE.get(p, "check not built yet in this round (runtime monitor planned in DESIGN.md §2)")} for p in props if p not in CHECKS]
    m = {
        "version": 1,
        "setup_cmd": "./setup.sh",
        "hooks": {"guard": "verif", "enable": "go test -c -race -tags verif (hook files carry //go:build verif)",
                  "baseline_off_cmd": "cd /repo && GOFLAGS=-mod=mod GOPROXY=off GOSUMDB=off GOTOOLCHAIN=local go test -vet=off -count=1 -json -timeout 25m ./...",
                  "source_commits": HOOK_COMMITS, "add_only": True},
        "engines": [{"name": "go-runtime-monitors", "path": "/verif/check", "serves_properties": [c["property_id"] for c in checks],
                     "kind_free_text": "per-property Go monitor binaries (go test -c -race -tags verif against /repo via a replace directive) run as child processes; reference models, event-log checkers, porcupine, race detector; tools/verdict.py turns output/death/race log into the verdict"}],
        "checks": checks,
        "not_applicable": na,
        "notes": "All checks decide by observing executions of the real code (runtime monitoring). known_findings.json lists recorded and fixed defects. seeded/ holds independently produced breaking changes and which checks catch them.",
    }
    json.dump(m, open(os.path.join(ROOT, "MANIFEST.json"), "w"), indent=1)
HOOK_COMMITS = ["39657f1"]
main()
