#!/usr/bin/env python3
"""Generates /verif/MANIFEST.json from the table below (kept next to the checks)."""
import json, os
ROOT = os.path.dirname(os.path.dirname(os.path.abspath(__file__)))
CHECKS = {
 "C01": ("exploration", "differential vs independent reference encoder; buffer canaries; decode-back; stream encoder/decoder comparison",
         "bounded-exhaustive over type x flag matrix x varint-boundary remaining lengths x boundary field lengths/ids plus >=150k random values per run; every value compared byte-for-byte with ref/codec",
         "trusts internal/ref/codec.go as the reading of MQTT 3.1.1; built without -race (sequential property) but with -d=checkptr", "2-C01"),
 "C04": ("exploration", "differential vs reference matcher in both directions (Match on stored filters, Search on stored names)",
         "exhaustive over {a,b,empty,+,#} to depth 3 (quick) / 4 (thorough): all single pairs, all pairs of entries, whole universe in one tree; plus random sets to depth 12 with multi-byte levels",
         "trusts internal/ref/topic.go (15 lines) as the reading of MQTT 3.1.1 §4.7 without the $ rule; built without -race (sequential property)", "2-C04"),
}
NOT_APPLICABLE = {}
def main():
    props = [json.loads(l)["id"] for l in open(os.path.join(ROOT, "properties.jsonl"))]
    checks = []
    for pid in props:
        if pid not in CHECKS:
            continue
        level, technique, text, note, ref = CHECKS[pid]
        checks.append({
            "property_id": pid,
            "quick_cmd": "./check %s quick" % pid,
            "thorough_cmd": "./check %s thorough" % pid,
            "evidence_file": "/verif/evidence/%s.json" % pid,
            "replay_cmd_template": "./check %s --replay {path}" % pid,
            "engine": "go-runtime-monitors",
            "level_claimed": {"category": level, "text": text, "design_ref": "DESIGN.md §" + ref},
            "level_note": note,
            "technique": "runtime monitoring: " + technique,
        })
    na = [{"property_id": p, "reason": NOT_APPLICABLE.get(p, "check not built yet in this round (runtime monitor planned in DESIGN.md §2)")} for p in props if p not in CHECKS]
    m = {
        "version": 1,
        "setup_cmd": "./setup.sh",
        "hooks": {"guard": "verif", "enable": "go test -c -race -tags verif (hook files carry //go:build verif)",
                  "baseline_off_cmd": "cd /repo && GOFLAGS=-mod=mod GOPROXY=off GOSUMDB=off GOTOOLCHAIN=local go test -vet=off -count=1 -json -timeout 25m ./...",
                  "source_commits": HOOK_COMMITS, "add_only": True},
        "engines": [{"name": "go-runtime-monitors", "path": "/verif/check", "serves_properties": [c["property_id"] for c in checks],
                     "kind_free_text": "per-property Go monitor binaries (go test -c -race -tags verif against /repo via a replace directive) run as child processes; reference models, event-log checkers, porcupine, race detector; tools/verdict.py turns output/death/race log into the verdict"}],
        "checks": checks,
        "not_applicable": na,
        "notes": "All checks decide by observing executions of the real code (runtime monitoring). known_findings.json lists recorded and fixed defects. seeded/ holds independently produced breaking changes and which checks catch them.",
    }
    json.dump(m, open(os.path.join(ROOT, "MANIFEST.json"), "w"), indent=1)
HOOK_COMMITS = []
main()
