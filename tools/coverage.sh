#!/bin/bash
# usage: tools/coverage.sh [tier] [PROPS...]
# Reach report: builds every monitor binary with statement coverage of the
# repository's packages (-coverpkg), runs the quick (default) workload of each
# and merges the profiles. The output lists, per repository file, the share of
# statements some workload executed and every function no workload entered.
# This is bookkeeping about what the monitors could possibly have observed; it
# decides nothing. Results: build/coverage/{Cxx.prof,merged.prof,report.txt}
set -u
cd "$(dirname "$0")/.."
ROOT="$(pwd)"
export VERIF_ROOT="$ROOT" GOFLAGS=-mod=mod GOPROXY=off GOSUMDB=off GOTOOLCHAIN=local
TIER="${1:-quick}"; shift || true
PROPS="$*"
[ -z "$PROPS" ] && PROPS="$(python3 -c "import json;print(' '.join(c['property_id'] for c in json.load(open('MANIFEST.json'))['checks']))")"
PKGS=github.com/256dpi/gomqtt/packet,github.com/256dpi/gomqtt/topic,github.com/256dpi/gomqtt/session,github.com/256dpi/gomqtt/broker,github.com/256dpi/gomqtt/client,github.com/256dpi/gomqtt/client/future,github.com/256dpi/gomqtt/transport
D=build/coverage; mkdir -p "$D"
export VERIF_TIER="$TIER" VERIF_SEED="${VERIF_SEED:-1}" VERIF_NO_EVIDENCE=1
for P in $PROPS; do
  lc="$(echo "$P" | tr 'A-Z' 'a-z')"
  go test -c -cover -covermode=atomic -coverpkg="$PKGS" -tags verif -vet=off -o "$D/$lc.test" "./props/$lc" > "$D/$lc.build" 2>&1 || { echo "$P build failed"; cat "$D/$lc.build"; continue; }
  timeout -s QUIT -k 30 1800 "$D/$lc.test" -test.run '^TestCheck$' -test.timeout 0 -test.coverprofile="$D/$P.prof" > "$D/$lc.out" 2>&1
  echo "$P rc=$? $(grep -E '^RESULT' "$D/$lc.out")"
  rm -f "$D/$lc.test"
done
python3 tools/covreport.py "$D" > "$D/report.txt"
head -40 "$D/report.txt"
