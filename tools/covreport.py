#!/usr/bin/env python3
"""Merges Go cover profiles (build/coverage/C*.prof) and reports reach per file and function."""
import sys, os, re, glob, subprocess, collections
d = sys.argv[1]
blocks = {}          # (file, span) -> (nstmt, count)
per = collections.defaultdict(dict)
for prof in sorted(glob.glob(os.path.join(d, "C*.prof"))):
    prop = os.path.basename(prof)[:-5]
    for line in open(prof):
        if line.startswith("mode:"):
            continue
        m = re.match(r"(.+):(\S+) (\d+) (\d+)$", line.strip())
        if not m:
            continue
        key = (m.group(1), m.group(2)); n = int(m.group(3)); c = int(m.group(4))
        old = blocks.get(key, (n, 0))
        blocks[key] = (n, old[1] + c)
        if c:
            per[key][prop] = c
with open(os.path.join(d, "merged.prof"), "w") as f:
    f.write("mode: atomic\n")
    for (fn, span), (n, c) in sorted(blocks.items()):
        f.write("%s:%s %d %d\n" % (fn, span, n, c))
byfile = collections.defaultdict(lambda: [0, 0])
for (fn, span), (n, c) in blocks.items():
    byfile[fn][0] += n
    if c:
        byfile[fn][1] += n
tot = [sum(v[0] for v in byfile.values()), sum(v[1] for v in byfile.values())]
print("statements of the repository reached by at least one monitor workload: %d of %d (%.1f%%)" % (tot[1], tot[0], 100.0 * tot[1] / max(1, tot[0])))
for fn in sorted(byfile):
    n, c = byfile[fn]
    print("  %-60s %5d/%5d  %5.1f%%" % (fn.replace("github.com/256dpi/gomqtt/", ""), c, n, 100.0 * c / max(1, n)))
print()
print("blocks never reached (file:span statements):")
for (fn, span), (n, c) in sorted(blocks.items(), key=lambda kv: (kv[0][0], [int(x) for x in re.split(r"[.,]", kv[0][1])])):
    if c == 0:
        print("  %s:%s %d" % (fn.replace("github.com/256dpi/gomqtt/", ""), span, n))
