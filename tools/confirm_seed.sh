#!/bin/bash
# usage: confirm_seed.sh <worktree> <seed-id> <PROP>
# Confirms an agent-produced mutation independently: patch applies to a pristine
# tree, the tree builds, the existing suite passes, the demo fails with the patch
# and passes without it. Copies the result to /verif/seeded/<seed-id>/.
set -u
WT="$1"; ID="$2"; PROP="$3"
export GOFLAGS=-mod=mod GOPROXY=off GOSUMDB=off GOTOOLCHAIN=local
cd "$WT" || exit 2
PKGS="./packet/... ./topic/... ./session/... ./broker/... ./client/... ./transport/flow/..."
cp patch.diff /tmp/$ID.patch; cp -r verifdemo /tmp/$ID.demo; cp meta.json /tmp/$ID.meta 2>/dev/null
git checkout -q -- . ; git clean -fdq -e verifdemo -e patch.diff -e meta.json
if ! git apply --check /tmp/$ID.patch; then echo "PATCH DOES NOT APPLY"; exit 1; fi
# without patch
go test -vet=off -count=1 ./verifdemo/... > /tmp/$ID.demo_without.log 2>&1; D0=$?
git apply /tmp/$ID.patch
go build ./... > /tmp/$ID.build.log 2>&1; B=$?
go test -vet=off -count=1 -run '^Test' $PKGS > /tmp/$ID.suite.log 2>&1; S=$?
# timing-sensitive tests of the suite flake on a loaded machine: one retry
if [ $S -ne 0 ]; then cp /tmp/$ID.suite.log /tmp/$ID.suite.first.log; go test -vet=off -count=1 -run '^Test' $PKGS > /tmp/$ID.suite.log 2>&1; S=$?; fi
go test -vet=off -count=1 ./verifdemo/... > /tmp/$ID.demo_with.log 2>&1; D1=$?
echo "build=$B suite=$S demo_without=$D0 demo_with=$D1"
if [ $B -eq 0 ] && [ $S -eq 0 ] && [ $D0 -eq 0 ] && [ $D1 -ne 0 ]; then
  mkdir -p /verif/seeded/$ID
  cp /tmp/$ID.patch /verif/seeded/$ID/patch.diff
  cp verifdemo/demo_test.go /verif/seeded/$ID/demo_test.go.txt
  python3 - "$ID" "$PROP" <<'PY'
import json,sys
i,prop=sys.argv[1],sys.argv[2]
try: m=json.load(open('/tmp/%s.meta'%i))
except Exception: m={}
out={"property":prop,"summary":m.get("summary",""),"needs":m.get("needs",""),
     "confirmed":{"builds":True,"existing_suite_passes_with_patch":True,"demo_passes_without_patch":True,"demo_fails_with_patch":True,
                  "ran":["git apply patch.diff","go build ./...","go test -vet=off -count=1 -run ^Test ./packet/... ./topic/... ./session/... ./broker/... ./client/... ./transport/flow/...","go test ./verifdemo/... (with and without patch)"]},
     "demo":"demo_test.go.txt (placed as verifdemo/demo_test.go in a checkout of the repository)","detected_by":[]}
json.dump(out,open('/verif/seeded/%s/meta.json'%i,'w'),indent=1)
PY
  echo CONFIRMED
else
  tail -n 5 /tmp/$ID.suite.log /tmp/$ID.demo_without.log /tmp/$ID.demo_with.log
  echo NOT-CONFIRMED
fi
