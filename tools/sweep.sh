#!/bin/bash
# usage: sweep.sh [tier] [seed]  — runs every check of the manifest once and prints rc and wall time
cd "$(dirname "$0")/.."
TIER="${1:-quick}"; export VERIF_SEED="${2:-1}"
for P in $(python3 -c "import json;print(' '.join(c['property_id'] for c in json.load(open('MANIFEST.json'))['checks']))"); do
  t0=$(date +%s)
  ./check "$P" "$TIER" > "/tmp/sweep-$P-$TIER-$VERIF_SEED.log" 2>&1; rc=$?
  t1=$(date +%s)
  echo "$P tier=$TIER seed=$VERIF_SEED rc=$rc wall=$((t1-t0))s $(grep -cE '^KNOWN-FINDING' /tmp/sweep-$P-$TIER-$VERIF_SEED.log) known $(grep -E '^(VIOLATION|INCONCLUSIVE|BROKEN)' /tmp/sweep-$P-$TIER-$VERIF_SEED.log | head -2 | cut -c1-200)"
done
