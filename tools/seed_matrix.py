#!/usr/bin/env python3
"""Runs every seeded change against its own property's quick check (and extra checks given
as 'also' in meta.json), records which checks detect it in seeded/<id>/meta.json and
seeded/MATRIX.md. /repo must be clean; it is restored after every run."""
import json, os, subprocess, sys, glob
# SEED_ROOT / SEED_REPO: run the checks from an isolated copy of /verif whose go.mod
# replace directive points to a scratch worktree of the repository (so a sweep in
# /verif against /repo is not disturbed); results are always written to /verif/seeded
ROOT = os.environ.get('SEED_ROOT', '/verif')
REPO = os.environ.get('SEED_REPO', '/repo')
os.chdir('/verif')
rows = []
only = sys.argv[1:]
for d in sorted(glob.glob('seeded/*/')):
    sid = os.path.basename(d.rstrip('/'))
    if only and sid not in only:
        continue
    meta = json.load(open(d + 'meta.json'))
    props = [meta['property']] + meta.get('also', [])
    if subprocess.run(['git', '-C', REPO, 'status', '--porcelain'], capture_output=True, text=True).stdout.strip():
        sys.exit(REPO + ' not clean')
    if subprocess.run(['git', '-C', REPO, 'apply', '/verif/' + d + 'patch.diff']).returncode != 0:
        rows.append((sid, meta['property'], 'PATCH DOES NOT APPLY', ''))
        continue
    det = []
    try:
        for p in props:
            out = subprocess.run([ROOT + '/check', p, 'quick'], capture_output=True, text=True)
            v = [l for l in out.stdout.splitlines() if l.startswith('VIOLATION')]
            det.append({'check': p, 'tier': 'quick', 'exit': out.returncode, 'violation_keys': sorted({l.split('key=')[1].split(' ::')[0] for l in v if 'key=' in l})})
    finally:
        subprocess.run(['git', '-C', REPO, 'checkout', '--', '.'])
        subprocess.run(['git', '-C', REPO, 'clean', '-fdq'])
    meta['detected_by'] = det
    json.dump(meta, open(d + 'meta.json', 'w'), indent=1)
    rows.append((sid, meta['property'], ', '.join('%s:%s' % (x['check'], 'DETECTED ' + '/'.join(x['violation_keys'][:2]) if x['exit'] == 1 else 'missed (rc=%d)' % x['exit']) for x in det), meta.get('summary', '')[:140]))
    print(rows[-1][:3], flush=True)
# MATRIX.md is always rebuilt from the meta.json files of all seeds
allrows = []
for d in sorted(glob.glob('seeded/*/')):
    sid = os.path.basename(d.rstrip('/'))
    try:
        meta = json.load(open(d + 'meta.json'))
    except Exception:
        continue
    det = meta.get('detected_by') or []
    res = ', '.join('%s:%s' % (x['check'], 'DETECTED ' + '/'.join(x['violation_keys'][:2]) if x['exit'] == 1 else 'missed (rc=%d)' % x['exit']) for x in det) or 'not run'
    allrows.append((sid, meta['property'], res, meta.get('summary', '')[:140].replace('|', '/').replace('\n', ' ')))
with open('seeded/MATRIX.md', 'w') as f:
    f.write('# Seeded changes vs checks (quick tier, seed 1)\n\n| seed | property | result | change |\n|---|---|---|---|\n')
    for r in allrows:
        f.write('| %s | %s | %s | %s |\n' % r)
