#!/usr/bin/env python3
"""Runs every seeded change against its own property's quick check (and extra checks given
as 'also' in meta.json), records which checks detect it in seeded/<id>/meta.json and
seeded/MATRIX.md. /repo must be clean; it is restored after every run."""
import json, os, subprocess, sys, glob
os.chdir('/verif')
rows = []
only = sys.argv[1:]
for d in sorted(glob.glob('seeded/*/')):
    sid = os.path.basename(d.rstrip('/'))
    if only and sid not in only:
        continue
    meta = json.load(open(d + 'meta.json'))
    props = [meta['property']] + meta.get('also', [])
    if subprocess.run(['git', '-C', '/repo', 'status', '--porcelain'], capture_output=True, text=True).stdout.strip():
        sys.exit('/repo not clean')
    if subprocess.run(['git', '-C', '/repo', 'apply', '/verif/' + d + 'patch.diff']).returncode != 0:
        rows.append((sid, meta['property'], 'PATCH DOES NOT APPLY', ''))
        continue
    det = []
    try:
        for p in props:
            out = subprocess.run(['./check', p, 'quick'], capture_output=True, text=True)
            v = [l for l in out.stdout.splitlines() if l.startswith('VIOLATION')]
            det.append({'check': p, 'tier': 'quick', 'exit': out.returncode, 'violation_keys': sorted({l.split('key=')[1].split(' ::')[0] for l in v if 'key=' in l})})
    finally:
        subprocess.run(['git', '-C', '/repo', 'checkout', '--', '.'])
        subprocess.run(['git', '-C', '/repo', 'clean', '-fdq'])
    meta['detected_by'] = det
    json.dump(meta, open(d + 'meta.json', 'w'), indent=1)
    rows.append((sid, meta['property'], ', '.join('%s:%s' % (x['check'], 'DETECTED ' + '/'.join(x['violation_keys'][:2]) if x['exit'] == 1 else 'missed (rc=%d)' % x['exit']) for x in det), meta.get('summary', '')[:140]))
    print(rows[-1][:3], flush=True)
if not only:
    with open('seeded/MATRIX.md', 'w') as f:
        f.write('# Seeded changes vs checks (quick tier, seed 1)\n\n| seed | property | result | change |\n|---|---|---|---|\n')
        for r in rows:
            f.write('| %s | %s | %s | %s |\n' % r)
