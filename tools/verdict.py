#!/usr/bin/env python3
"""Turn a monitor child's output, death and race log into the check verdict.

usage: verdict.py <PROP> <out file> <race log prefix> <child rc> <wall s>
exit 0 held / 1 violation (VIOLATION line printed) / 2 inconclusive or broken
"""
import glob, json, os, re, sys, hashlib

prop, out_path, race_prefix, rc, wall = sys.argv[1], sys.argv[2], sys.argv[3], int(sys.argv[4]), float(sys.argv[5])
root = os.environ.get("VERIF_ROOT", "/verif")
RACE_CLAIMING = {"C05", "C18", "C19"}
REPO_MARK = "/repo/"
if os.environ.get("VP_RUN_REPO"):
    REPO_MARK = os.environ["VP_RUN_REPO"].rstrip("/") + "/"

try:
    out = open(out_path, errors="replace").read()
except OSError:
    out = ""

viol_lines = [l for l in out.splitlines() if l.startswith("VIOLATION ")]
result = None
for l in out.splitlines():
    if l.startswith("RESULT "):
        result = l.split()[1]

# ---- race reports -------------------------------------------------------
blocks = []
for f in sorted(glob.glob(race_prefix + ".*")):
    txt = open(f, errors="replace").read()
    for b in txt.split("=================="):
        if "WARNING: DATA RACE" in b:
            blocks.append(b.strip())
# the child's own stderr may also carry reports when log_path could not be used
for b in out.split("=================="):
    if "WARNING: DATA RACE" in b:
        blocks.append(b.strip())

def sig(block):
    fr = re.findall(r"^\s+([\w./*()\[\]·-]+)\(\)\s*$", block, re.M)
    return hashlib.sha1("|".join(fr).encode()).hexdigest()

seen = {}
for b in blocks:
    seen.setdefault(sig(b), b)
uniq = list(seen.values())
def access_top_frames(b):
    # the innermost frame of each of the two conflicting accesses
    tops = []
    parts = re.split(r"\n\s*\n", b)
    for p in parts:
        p = p.strip()
        if re.match(r"(WARNING: DATA RACE\n)?\s*(Read|Write|Previous read|Previous write|Atomic|Previous atomic)", p):
            fr = re.findall(r"^\s+([\w./*()\[\]%·-]+)\(\)\s*$", p, re.M)
            # skip runtime / sync / stdlib wrappers to the first module frame
            for f in fr:
                if f.startswith("github.com/256dpi/gomqtt") or f.startswith("verif/"):
                    tops.append(f)
                    break
            else:
                if fr:
                    tops.append(fr[0])
    return tops
def in_repo(b):
    return any(t.startswith("github.com/256dpi/gomqtt") for t in access_top_frames(b))
repo_races = [b for b in uniq if in_repo(b)]
harness_only = [b for b in uniq if b not in repo_races]

ev_path = os.path.join(root, "evidence", prop + ".json")
def patch_evidence(extra_cov, add_viol=0, minimal_reason=None):
    ev = None
    try:
        ev = json.load(open(ev_path))
        if ev.get("wall_s", 0) and result is None:
            ev = None  # stale file from an earlier run
    except Exception:
        ev = None
    if ev is None:
        ev = {"property_id": prop, "tier": os.environ.get("VERIF_TIER", "quick"),
              "seed": int(os.environ.get("VERIF_SEED", "1")), "level": "exploration",
              "coverage": {"evaluations": 0, "distinct_nontrivial": 0,
                           "rule": "child process died before writing evidence: " + (minimal_reason or ""),
                           "samples": []},
              "assumptions": [], "wall_s": wall, "violations": 0}
    ev["coverage"].update(extra_cov)
    ev["violations"] = ev.get("violations", 0) + add_viol
    os.makedirs(os.path.dirname(ev_path), exist_ok=True)
    json.dump(ev, open(ev_path, "w"), indent=1)

def write_replay(name, payload):
    d = os.path.join(root, "replays", prop)
    os.makedirs(d, exist_ok=True)
    p = os.path.join(d, name)
    json.dump(payload, open(p, "w"), indent=1)
    return p

exit_code = 0
extra = {"race_reports_total": len(blocks), "race_reports_distinct": len(uniq),
         "race_reports_in_repo_code": len(repo_races)}
if repo_races:
    extra["race_samples"] = [b[:3000] for b in repo_races[:3]]

# ---- child died without a verdict ----------------------------------------
if result is None:
    journal = ""
    try:
        journal = open(os.path.join(root, "build", prop.lower() + ".journal"), errors="replace").read().strip()
    except OSError:
        pass
    m = re.search(r"^(panic:|fatal error:|unexpected fault address).*$", out, re.M)
    timed_out = rc in (124, 137) or "SIGQUIT: quit" in out
    if m and not ("SIGQUIT: quit" in out and out.find("SIGQUIT: quit") < m.start()):
        tail = out[m.start():m.start() + 12000]
        first_goroutine = tail.split("\n\n")[0:3]
        crash_in_repo = (REPO_MARK in "\n".join(first_goroutine)) or ("github.com/256dpi/gomqtt" in "\n".join(first_goroutine))
        if crash_in_repo:
            key = "process-crash:" + re.sub(r"0x[0-9a-f]+", "0x?", m.group(0))[:120]
            known = {}
            try:
                kf = json.load(open(os.path.join(root, "known_findings.json")))
                known = {k["key"]: k["what"] for k in kf.get("known", []) if k["property"] == prop}
            except Exception:
                pass
            if key in known:
                print("KNOWN-FINDING: property=%s %s — %s" % (prop, key, known[key]))
                patch_evidence(extra, 0, "known crash")
                print("INCONCLUSIVE property=%s child died on a known finding before finishing" % prop)
                sys.exit(2)
            p = write_replay("crash-%s-%s.json" % (os.environ.get("VERIF_SEED", "1"), os.environ.get("VERIF_TIER", "quick")),
                             {"property": prop, "seed": int(os.environ.get("VERIF_SEED", "1")),
                              "tier": os.environ.get("VERIF_TIER", "quick"), "key": key,
                              "message": "the process running the system under test died: " + m.group(0),
                              "witness": {"journal_current_case": journal, "crash_output": tail}})
            patch_evidence(extra, 1, "crash in repository code")
            print("VIOLATION property=%s replay=%s key=%s :: process died in repository code; current case: %s" % (prop, p, key, journal[:300]))
            sys.exit(1)
        print(tail[:4000])
        print("BROKEN property=%s monitor process crashed outside repository code (harness bug)" % prop)
        patch_evidence(extra, 0, "harness crash")
        sys.exit(2)
    if timed_out:
        print(out[-3000:])
        print("INCONCLUSIVE property=%s global watchdog fired (rc=%d) — current case: %s" % (prop, rc, journal[:300]))
        patch_evidence(extra, 0, "global watchdog")
        sys.exit(2)
    print(out[-3000:])
    print("BROKEN property=%s child ended rc=%d without a RESULT line" % (prop, rc))
    sys.exit(2)

# ---- normal end -------------------------------------------------------------
add_viol = 0
if prop in RACE_CLAIMING and repo_races:
    p = write_replay("race-%s-%s.json" % (os.environ.get("VERIF_SEED", "1"), os.environ.get("VERIF_TIER", "quick")),
                     {"property": prop, "seed": int(os.environ.get("VERIF_SEED", "1")),
                      "tier": os.environ.get("VERIF_TIER", "quick"), "key": "data-race",
                      "message": "the Go race detector reported %d distinct race(s) with a frame in repository code" % len(repo_races),
                      "witness": {"reports": [b[:6000] for b in repo_races[:5]]}})
    first = re.findall(r"^\s+(github\.com/256dpi/gomqtt[\w./*()-]+)\(\)", repo_races[0], re.M)
    viol_lines.append("VIOLATION property=%s replay=%s key=data-race :: %d distinct race report(s) in repository code, e.g. %s" % (prop, p, len(repo_races), " vs ".join(first[:2])))
    add_viol = len(repo_races)
patch_evidence(extra, add_viol)

if harness_only and not repo_races and prop in RACE_CLAIMING:
    print("BROKEN property=%s %d race report(s) with harness frames only" % (prop, len(harness_only)))
    print(harness_only[0][:3000])
    sys.exit(2)

if viol_lines:
    for l in viol_lines:
        print(l)
    sys.exit(1)
if result == "inconclusive":
    sys.exit(2)
if result == "ok":
    if blocks and prop not in RACE_CLAIMING:
        print("NOTE property=%s %d race report(s) observed (%d in repository code) — recorded in evidence, not part of this property" % (prop, len(uniq), len(repo_races)))
    sys.exit(0)
print("BROKEN property=%s unexpected RESULT %r" % (prop, result))
sys.exit(2)
