#!/bin/bash
# usage: seed_try.sh <seed-id> [tier] [PROP...]   — applies /verif/seeded/<id>/patch.diff to /repo,
# runs the named checks (default: the seed's own property), reverts /repo, prints verdicts.
set -u
ID="$1"; TIER="${2:-quick}"; shift; shift || true
cd /verif
PROPS="$*"
[ -z "$PROPS" ] && PROPS="$(python3 -c "import json;print(json.load(open('/verif/seeded/$ID/meta.json'))['property'])")"
if [ -n "$(git -C /repo status --porcelain)" ]; then echo "/repo not clean"; exit 2; fi
git -C /repo apply "/verif/seeded/$ID/patch.diff" || { echo "patch does not apply"; exit 2; }
for P in $PROPS; do
  ./check "$P" "$TIER" > "/tmp/seedtry-$ID-$P.log" 2>&1; rc=$?
  echo "seed=$ID check=$P tier=$TIER rc=$rc $(grep -c '^VIOLATION' /tmp/seedtry-$ID-$P.log) violation lines; first: $(grep -m1 '^VIOLATION' /tmp/seedtry-$ID-$P.log | cut -c1-260)"
done
git -C /repo checkout -- . ; git -C /repo clean -fdq
