module verif

go 1.21

require (
	github.com/256dpi/gomqtt v0.0.0
	github.com/anishathalye/porcupine v1.3.0
	github.com/gorilla/websocket v1.4.1
)

require (
	github.com/256dpi/mercury v0.2.0 // indirect
	github.com/jpillora/backoff v0.0.0-20170918002102-8eab2debe79d // indirect
	gopkg.in/tomb.v2 v2.0.0-20161208151619-d5d1b5820637 // indirect
)

replace github.com/256dpi/gomqtt => /repo
