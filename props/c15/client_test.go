package c15

import (
	"fmt"
	"os"
	"strings"
	"sync"
	"time"

	"github.com/256dpi/gomqtt/client"
	"github.com/256dpi/gomqtt/packet"
	"github.com/256dpi/gomqtt/session"

	"verif/internal/bh"
	"verif/internal/ch"
	"verif/internal/h"
)

// C. client library as sender: retransmission order after resume
func clientResend(r *h.Run, idx int) {
	if r.TooMany() {
		return
	}
	rng := r.Rand(fmt.Sprintf("c15-cresend-%d", idx))
	k := 2 + rng.Intn(9)
	r.Journal("C15 client resend #%d k=%d", idx, k)
	srv := ch.NewServer()
	recFor := map[packet.ID]bool{}
	ackFor := map[packet.ID]bool{}
	srv.Prep = func(c *ch.Conn) {
		c.Peer.AutoReply = ch.Broker(c.N > 1, func(in packet.Generic, def []packet.Generic) []packet.Generic {
			switch v := in.(type) {
			case *packet.Publish:
				if c.N == 1 && v.Message.QOS == 2 && recFor[v.ID] {
					return def // PUBREC, so that the client stores a PUBREL
				}
				if c.N == 1 && v.Message.QOS == 1 && ackFor[v.ID] {
					return def // a flow in the middle completes
				}
				return nil // withhold acknowledgements
			case *packet.Pubrel:
				return nil
			}
			return def
		})
	}
	fail := func(key, msg string) {
		r.Violation("client/"+key, fmt.Sprintf("client resend #%d (%d unacknowledged): %s", idx, k, msg), map[string]interface{}{"detail": msg, "event_log_tail": srv.Log.Dump(120)})
	}
	sess := ch.NewSession(srv.Log)
	// a third of the runs start the packet id counter just below the 16-bit
	// wrap-around, so the unacknowledged window spans ... 65535, 1, 2 ...
	start := 1
	if idx%3 == 2 {
		start = 65535 - rng.Intn(k)
		sess.Inner.Counter = session.NewIDCounterWithNext(packet.ID(start))
	}
	seqID := func(i int) packet.ID { // id of the i-th publish (1-based)
		v := start + i - 1
		if v > 65535 {
			v -= 65535
		}
		return packet.ID(v)
	}
	for i := 1; i <= k; i++ {
		if rng.Intn(3) == 0 {
			recFor[seqID(i)] = true
		} else if i > 1 && i < k && rng.Intn(3) == 0 {
			ackFor[seqID(i)] = true
		}
	}
	c1 := client.New()
	c1.Session = sess
	cf, err := c1.Connect(ch.Config(srv, "c15-client", false))
	if err != nil || cf.Wait(bh.Watchdog) != nil {
		r.Inconclusive("client could not connect")
		return
	}
	nrec := 0
	for i := 1; i <= k; i++ {
		q := packet.QOS(1 + rng.Intn(2))
		if recFor[seqID(i)] && q == 2 {
			nrec++
		}
		if _, err := c1.Publish("cr/x", []byte(fmt.Sprintf("cr-%03d", i)), q, false); err != nil {
			r.Inconclusive("publish failed: " + err.Error())
			return
		}
	}
	conn1 := srv.WaitConn(1, bh.Watchdog)
	ok := conn1.Peer.WaitCond(bh.Watchdog, func(all []packet.Generic) bool {
		np, nr := 0, 0
		for _, g := range all {
			switch g.(type) {
			case *packet.Publish:
				np++
			case *packet.Pubrel:
				nr++
			}
		}
		return np >= k && nr >= nrec
	})
	if !ok {
		r.Inconclusive("scripted broker did not receive the publishes")
		return
	}
	// original transmission order (client-side send log of connection 1)
	state := map[packet.ID]string{}
	var ids []packet.ID
	for _, e := range srv.Log.Events() {
		if e.Who != "cli#1" || e.Kind != "csend" {
			continue
		}
		switch v := e.Pkt.(type) {
		case *packet.Publish:
			if v.Message.QOS > 0 {
				if _, seen := state[v.ID]; !seen {
					ids = append(ids, v.ID)
				}
				state[v.ID] = "PUBLISH"
			}
		case *packet.Pubrel:
			state[v.ID] = "PUBREL"
		}
	}
	// flows the scripted broker completed are gone once the client processed the PUBACK
	ackedIDs := map[packet.ID]bool{}
	deadline := time.Now().Add(2 * time.Second)
	for time.Now().Before(deadline) {
		ackedIDs = map[packet.ID]bool{}
		want := 0
		for _, e := range srv.Log.Events() {
			if e.Who == "srv#1" && e.Kind == "ssend" {
				if _, ok := e.Pkt.(*packet.Puback); ok {
					want++
				}
			}
			if e.Who == "cli#1" && e.Kind == "crecv" {
				if a, ok := e.Pkt.(*packet.Puback); ok {
					ackedIDs[a.ID] = true
				}
			}
		}
		if len(ackedIDs) >= want {
			break
		}
		time.Sleep(time.Millisecond)
	}
	time.Sleep(2 * time.Millisecond) // shaping: let the processor finish the last PUBACK
	var original []string
	for _, id := range ids {
		if !ackedIDs[id] {
			original = append(original, fmt.Sprintf("%s(%d)", state[id], id))
		}
	}
	conn1.Peer.Close()
	done := make(chan struct{})
	go func() { _ = c1.Close(); close(done) }()
	select {
	case <-done:
	case <-time.After(bh.Watchdog):
		r.Inconclusive("Close of the first client did not return")
		return
	}
	// what is still recorded, in the order of first transmission, is read from the
	// session's own log now that the first client is closed (an acknowledgement
	// or PUBREC may have been processed up to the last moment)
	{
		kind := map[string]string{}
		var order []string
		for _, e := range srv.Log.Events() {
			if e.Who != "session" {
				continue
			}
			switch e.Kind {
			case "sess:save:out":
				pid, _ := packet.GetID(e.Pkt)
				k := fmt.Sprint(pid)
				if _, seen := kind[k]; !seen {
					order = append(order, k)
				}
				if _, isRel := e.Pkt.(*packet.Pubrel); isRel {
					kind[k] = "PUBREL"
				} else {
					kind[k] = "PUBLISH"
				}
			case "sess:delete:out":
				k := strings.TrimSpace(e.Note)
				if _, seen := kind[k]; seen {
					delete(kind, k)
					for i, o := range order {
						if o == k {
							order = append(order[:i], order[i+1:]...)
							break
						}
					}
				}
			}
		}
		original = nil
		for _, k := range order {
			original = append(original, fmt.Sprintf("%s(%s)", kind[k], k))
		}
	}
	c2 := client.New()
	c2.Session = sess
	cf2, err := c2.Connect(ch.Config(srv, "c15-client", false))
	if err != nil || cf2.Wait(bh.Watchdog) != nil {
		r.Inconclusive("client could not reconnect")
		return
	}
	conn2 := srv.WaitConn(2, bh.Watchdog)
	ok = conn2.Peer.WaitCond(bh.Watchdog, func(all []packet.Generic) bool {
		n := 0
		for _, g := range all {
			switch v := g.(type) {
			case *packet.Publish:
				if v.Message.QOS > 0 {
					n++
				}
			case *packet.Pubrel:
				n++
			}
		}
		return n >= len(original)
	})
	var resent []string
	for _, g := range conn2.Peer.All() {
		switch v := g.(type) {
		case *packet.Publish:
			if v.Message.QOS > 0 {
				resent = append(resent, fmt.Sprintf("PUBLISH(%d)", v.ID))
			}
		case *packet.Pubrel:
			resent = append(resent, fmt.Sprintf("PUBREL(%d)", v.ID))
		}
	}
	if !ok {
		fail("resend-missing", fmt.Sprintf("after reconnecting with the same session the client retransmitted %v, recorded at loss %v", resent, original))
	} else if fmt.Sprint(resent[:len(original)]) != fmt.Sprint(original) {
		fail("resend-order", fmt.Sprintf("the client retransmitted in order %v, original transmission order %v", resent, original))
	}
	go c2.Close()
	if len(original) >= 2 {
		r.NonTrivial(fmt.Sprintf("cresend:%d:%v", idx, original))
	}
	r.Eval()
}

// D. client library as receiver: callback order = arrival order per QoS
func clientInbound(r *h.Run, idx int) {
	if r.TooMany() {
		return
	}
	rng := r.Rand(fmt.Sprintf("c15-cin-%d", idx))
	n := 10 + rng.Intn(60)
	r.Journal("C15 client inbound #%d n=%d", idx, n)
	srv := ch.NewServer()
	srv.Prep = func(c *ch.Conn) { c.Peer.AutoReply = ch.Broker(false, nil) }
	var mu sync.Mutex
	var got []string
	c := client.New()
	c.Callback = func(m *packet.Message, err error) error {
		if m != nil {
			mu.Lock()
			got = append(got, string(m.Payload))
			mu.Unlock()
		}
		return nil
	}
	cfg := ch.Config(srv, "c15-in", true)
	cfg.AlwaysAnnounceOnPublish = idx%3 == 0
	cf, err := c.Connect(cfg)
	if err != nil || cf.Wait(bh.Watchdog) != nil {
		r.Inconclusive("client could not connect")
		return
	}
	conn := srv.WaitConn(1, bh.Watchdog)
	seq := [3]int{}
	for i := 0; i < n; i++ {
		q := packet.QOS(rng.Intn(3))
		seq[q]++
		p := &packet.Publish{Message: packet.Message{Topic: "in/x", QOS: q, Payload: []byte(fmt.Sprintf("q%d|%05d", q, seq[q]))}}
		if q > 0 {
			p.ID = packet.ID(i + 1)
		}
		_ = conn.Peer.Send(p)
	}
	// end: a final QoS 0 message after all handshakes are through
	total := seq[0] + seq[1] + seq[2]
	deadline := time.Now().Add(bh.Watchdog)
	for {
		mu.Lock()
		l := len(got)
		mu.Unlock()
		if l >= total {
			break
		}
		if time.Now().After(deadline) {
			r.Violation("client/inbound-stalled", fmt.Sprintf("client inbound #%d: %d of %d messages reached the callback", idx, l, total), map[string]interface{}{"event_log_tail": srv.Log.Dump(100)})
			go c.Close()
			return
		}
		time.Sleep(300 * time.Microsecond)
	}
	last := map[string]int{}
	mu.Lock()
	for _, pl := range got {
		parts := strings.Split(pl, "|")
		var k int
		fmt.Sscanf(parts[1], "%d", &k)
		if k != last[parts[0]]+1 {
			r.Violation("client/callback-order", fmt.Sprintf("client inbound #%d (announce-on-publish=%t): callback received %s after #%d of that QoS; arrival order was increasing", idx, cfg.AlwaysAnnounceOnPublish, pl, last[parts[0]]), map[string]interface{}{"callback_order": got})
			break
		}
		last[parts[0]] = k
	}
	mu.Unlock()
	go c.Close()
	r.NonTrivial(fmt.Sprintf("cin:%d", idx))
	r.Eval()
}

// D2. the same through a Service: the scripted broker starts sending a backlog
// the moment it has accepted the connection (a resumed session) and keeps
// streaming; OnlineCallback and MessageCallback take their time. Messages of
// one QoS reach MessageCallback in arrival order, one at a time.
func serviceInbound(r *h.Run, idx int) {
	if r.TooMany() {
		return
	}
	rng := r.Rand(fmt.Sprintf("c15-svcin-%d", idx))
	backlog := 5 + rng.Intn(40)
	stream := 20 + rng.Intn(80)
	onlineDelay := time.Duration(rng.Intn(6)) * time.Millisecond
	cbDelay := time.Duration(rng.Intn(300)) * time.Microsecond
	r.Journal("C15 service inbound #%d backlog=%d stream=%d online=%v cb=%v", idx, backlog, stream, onlineDelay, cbDelay)
	srv := ch.NewServer()
	seq := [2]int{}
	var smu sync.Mutex
	next := func(i int) *packet.Publish {
		smu.Lock()
		defer smu.Unlock()
		q := packet.QOS((i + i/3) % 2)
		seq[q]++
		p := &packet.Publish{Message: packet.Message{Topic: "in/x", QOS: q, Payload: []byte(fmt.Sprintf("q%d|%05d", q, seq[q]))}}
		if q > 0 {
			p.ID = packet.ID(i + 1)
		}
		return p
	}
	srv.Prep = func(c *ch.Conn) {
		c.Peer.AutoReply = ch.Broker(true, func(in packet.Generic, def []packet.Generic) []packet.Generic {
			if _, ok := in.(*packet.Connect); ok {
				out := def
				for i := 0; i < backlog; i++ {
					out = append(out, next(i))
				}
				return out
			}
			return def
		})
	}
	var mu sync.Mutex
	var got []string
	inCallback := 0
	overlapped := false
	s := client.NewService(400)
	s.OnlineCallback = func(bool) { time.Sleep(onlineDelay) }
	s.MessageCallback = func(m *packet.Message) error {
		mu.Lock()
		inCallback++
		if inCallback > 1 {
			overlapped = true
		}
		mu.Unlock()
		time.Sleep(cbDelay)
		mu.Lock()
		got = append(got, string(m.Payload))
		inCallback--
		mu.Unlock()
		return nil
	}
	s.Start(ch.Config(srv, "c15-svcin", false))
	conn := srv.WaitConn(1, bh.Watchdog)
	if conn == nil {
		r.Inconclusive("service never dialled")
		return
	}
	// the stream starts when the whole backlog is on the wire (sequence numbers
	// are handed out in wire order)
	sentBacklog := func() int {
		n := 0
		for _, e := range srv.Log.Events() {
			if e.Who == conn.Peer.Name && e.Kind == "ssend" {
				if _, ok := e.Pkt.(*packet.Publish); ok {
					n++
				}
			}
		}
		return n
	}
	for w := 0; sentBacklog() < backlog; w++ {
		if w > 40000 {
			r.Inconclusive(fmt.Sprintf("service inbound #%d: the scripted broker never got the CONNECT", idx))
			go s.Stop(true)
			return
		}
		time.Sleep(500 * time.Microsecond)
	}
	for i := backlog; i < backlog+stream; i++ {
		_ = conn.Peer.Send(next(i))
		if i%7 == 0 {
			time.Sleep(100 * time.Microsecond)
		}
	}
	total := backlog + stream
	deadline := time.Now().Add(bh.Watchdog)
	for {
		mu.Lock()
		l := len(got)
		mu.Unlock()
		if l >= total {
			break
		}
		if time.Now().After(deadline) {
			r.Inconclusive(fmt.Sprintf("service inbound #%d: %d of %d messages reached MessageCallback within the watchdog", idx, l, total))
			go s.Stop(true)
			return
		}
		time.Sleep(300 * time.Microsecond)
	}
	last := map[string]int{}
	mu.Lock()
	for _, pl := range got {
		parts := strings.Split(pl, "|")
		var k int
		fmt.Sscanf(parts[1], "%d", &k)
		if k != last[parts[0]]+1 {
			r.Violation("service/message-callback-order", fmt.Sprintf("service inbound #%d (backlog %d right after CONNACK, OnlineCallback takes %v, MessageCallback %v): MessageCallback received %s after #%d of that QoS; arrival order was increasing", idx, backlog, onlineDelay, cbDelay, pl, last[parts[0]]), map[string]interface{}{"callback_order": got})
			break
		}
		last[parts[0]] = k
	}
	if overlapped {
		r.Count("service_message_callbacks_overlapped", 1)
	}
	mu.Unlock()
	stopped := make(chan struct{})
	go func() { s.Stop(true); close(stopped) }()
	select {
	case <-stopped:
	case <-time.After(bh.Watchdog):
		r.Inconclusive("service Stop did not return")
	}
	r.NonTrivial(fmt.Sprintf("svcin:%d", idx))
	r.Eval()
}

// E. service commands are executed first-in first-out
func serviceOrder(r *h.Run, idx int) {
	if r.TooMany() {
		return
	}
	rng := r.Rand(fmt.Sprintf("c15-svc-%d", idx))
	callers := 1 + rng.Intn(4)
	per := 5 + rng.Intn(15)
	r.Journal("C15 service order #%d callers=%d per=%d", idx, callers, per)
	srv := ch.NewServer()
	srv.Prep = func(c *ch.Conn) { c.Peer.AutoReply = ch.Broker(false, nil) }
	s := client.NewService(400)
	s.MinReconnectDelay, s.MaxReconnectDelay = time.Millisecond, 5*time.Millisecond
	offline := per / 2
	issue := func(caller, from, to int) {
		for i := from; i < to; i++ {
			tag := fmt.Sprintf("c%d|%04d", caller, i)
			switch rng.Intn(3) {
			case 0:
				s.Publish("svc/"+tag, []byte(tag), packet.QOS(i%3), false)
			case 1:
				s.Subscribe("svc/"+tag, packet.QOS(i%3))
			default:
				s.Unsubscribe("svc/" + tag)
			}
		}
	}
	// commands issued while offline (sequentially per caller), then Start, then online ones concurrently
	for c := 0; c < callers; c++ {
		issue(c, 0, offline)
	}
	s.Start(ch.Config(srv, "c15-svc", true))
	var wg sync.WaitGroup
	for c := 0; c < callers; c++ {
		wg.Add(1)
		go func(c int) {
			defer wg.Done()
			lr := r.Rand(fmt.Sprintf("c15-svc-%d-%d", idx, c))
			for i := offline; i < per; i++ {
				tag := fmt.Sprintf("c%d|%04d", c, i)
				switch lr.Intn(3) {
				case 0:
					s.Publish("svc/"+tag, []byte(tag), packet.QOS(i%3), false)
				case 1:
					s.Subscribe("svc/"+tag, packet.QOS(i%3))
				default:
					s.Unsubscribe("svc/" + tag)
				}
			}
		}(c)
	}
	wg.Wait()
	conn := srv.WaitConn(1, bh.Watchdog)
	if conn == nil {
		r.Inconclusive("service never dialled")
		return
	}
	want := callers * per
	tagOf := func(g packet.Generic) string {
		switch v := g.(type) {
		case *packet.Publish:
			if v.Dup {
				// a retransmission, not the execution of a command (the client's
				// replay of its session after CONNACK can pick up a publish the
				// dispatcher has just recorded and send it a second time)
				return ""
			}
			return strings.TrimPrefix(v.Message.Topic, "svc/")
		case *packet.Subscribe:
			return strings.TrimPrefix(v.Subscriptions[0].Topic, "svc/")
		case *packet.Unsubscribe:
			return strings.TrimPrefix(v.Topics[0], "svc/")
		}
		return ""
	}
	ok := conn.Peer.WaitCond(bh.Watchdog, func(all []packet.Generic) bool {
		n := 0
		for _, g := range all {
			if tagOf(g) != "" {
				n++
			}
		}
		return n >= want
	})
	if !ok {
		r.Violation("service/commands-lost", fmt.Sprintf("service order #%d: not all %d commands reached the broker", idx, want), map[string]interface{}{"event_log_tail": srv.Log.Dump(100)})
	}
	last := map[string]int{}
	for _, g := range conn.Peer.All() {
		t := tagOf(g)
		if t == "" {
			continue
		}
		parts := strings.Split(t, "|")
		var k int
		fmt.Sscanf(parts[1], "%d", &k)
		if l, seen := last[parts[0]]; seen && k <= l {
			r.Violation("service/command-order", fmt.Sprintf("service order #%d: command %s of caller %s was executed after #%d", idx, t, parts[0], l), map[string]interface{}{"event_log_tail": srv.Log.Dump(400)})
			break
		}
		last[parts[0]] = k
	}
	stopped := make(chan struct{})
	go func() { s.Stop(true); close(stopped) }()
	select {
	case <-stopped:
	case <-time.After(bh.Watchdog):
		r.Inconclusive("service Stop did not return")
	}
	r.NonTrivial(fmt.Sprintf("svc:%d", idx))
	r.Eval()
}

// serviceOrderDrops: one caller queues numbered QoS 0 publishes before Start;
// the scripted broker cuts the connection after every k-th publish it receives
// (a few times). Commands handed to a dying client may be cancelled (gaps), but
// what reaches the broker - over all connections, in the global order of the
// event log - must be in the order the commands were issued.
func serviceOrderDrops(r *h.Run, idx int) {
	if r.TooMany() {
		return
	}
	rng := r.Rand(fmt.Sprintf("c15-svcdrop-%d", idx))
	total := 40 + rng.Intn(60)
	every := 4 + rng.Intn(12)
	maxDrops := 2 + rng.Intn(4)
	slow := idx%2 == 0
	r.Journal("C15 service order with drops #%d total=%d every=%d drops=%d slowlog=%t", idx, total, every, maxDrops, slow)
	srv := ch.NewServer()
	var mu sync.Mutex
	seen, drops := 0, 0
	srv.Prep = func(c *ch.Conn) {
		c.Peer.AutoReply = ch.Broker(false, func(in packet.Generic, def []packet.Generic) []packet.Generic {
			if pp, ok := in.(*packet.Publish); ok && strings.HasPrefix(pp.Message.Topic, "svc/") {
				mu.Lock()
				seen++
				cut := seen%every == 0 && drops < maxDrops
				if cut {
					drops++
				}
				mu.Unlock()
				if cut {
					c.Peer.Close()
					return nil
				}
			}
			return def
		})
	}
	// a third of the runs: a command queue of 4 and a broker that cannot be
	// reached at first, so the single caller keeps running into a full queue
	tiny := idx%3 == 2
	qsize := 400
	if tiny {
		qsize = 4
		refuse := 1 + idx/3%3
		srv.OnDial = func(n int) error {
			if n <= refuse {
				return ch.ErrRefused
			}
			return nil
		}
	}
	s := client.NewService(qsize)
	s.MinReconnectDelay, s.MaxReconnectDelay = time.Millisecond, 3*time.Millisecond
	s.QueueTimeout = 30 * time.Second
	if slow {
		// paces the dispatcher so that a loss is noticed while commands are queued
		s.Logger = func(string) { time.Sleep(200 * time.Microsecond) }
	}
	issued := make(chan struct{})
	issue := func() {
		defer close(issued)
		for i := 0; i < total; i++ {
			s.Publish(fmt.Sprintf("svc/%04d", i), []byte("x"), 0, false)
		}
	}
	if tiny {
		s.Start(ch.Config(srv, "c15-svcdrop", true))
		go issue()
	} else {
		issue()
		s.Start(ch.Config(srv, "c15-svcdrop", true))
	}
	select {
	case <-issued:
	case <-time.After(bh.Watchdog):
		r.Inconclusive(fmt.Sprintf("service order with drops #%d: the caller was still blocked on the command queue after the watchdog", idx))
		go s.Stop(true)
		return
	}
	// the end marker is a command like the others: re-issued until one arrives
	arrived := func() (nums []int, end bool) {
		cut := map[string]bool{}
		for _, e := range srv.Log.Events() {
			if e.Kind == "peer-close" {
				// the scripted broker has ended this connection: bytes that were
				// already in flight and are read afterwards were not received by it
				cut[e.Who] = true
			}
			if e.Kind != "srecv" || cut[e.Who] {
				continue
			}
			if pp, ok := e.Pkt.(*packet.Publish); ok && strings.HasPrefix(pp.Message.Topic, "svc/") {
				if pp.Message.Topic == "svc/END" {
					end = true
					continue
				}
				var k int
				fmt.Sscanf(strings.TrimPrefix(pp.Message.Topic, "svc/"), "%d", &k)
				nums = append(nums, k)
			}
		}
		return
	}
	ended := false
	for try := 0; try < 400 && !ended; try++ {
		s.Publish("svc/END", []byte("x"), 0, false)
		time.Sleep(5 * time.Millisecond)
		_, ended = arrived()
	}
	nums, _ := arrived()
	if !ended {
		r.Inconclusive(fmt.Sprintf("service order with drops #%d: the end marker never arrived", idx))
	} else {
		for i := 1; i < len(nums); i++ {
			if nums[i] <= nums[i-1] {
				r.Violation("service/command-order-across-reconnects", fmt.Sprintf("service order with drops #%d (%d commands queued before Start, connection cut after every %d-th publish, %d cuts): command #%d reached the broker after #%d; arrival order %v", idx, total, every, drops, nums[i], nums[i-1], nums), map[string]interface{}{"arrival_order": nums, "event_log_tail": srv.Log.Dump(120)})
				break
			}
		}
	}
	stopped := make(chan struct{})
	go func() { s.Stop(true); close(stopped) }()
	select {
	case <-stopped:
	case <-time.After(bh.Watchdog):
		r.Inconclusive("service Stop did not return")
	}
	mu.Lock()
	d := drops
	mu.Unlock()
	if d > 0 && len(nums) > every {
		r.NonTrivial(fmt.Sprintf("svcdrop:%d", idx))
	}
	r.Eval()
}

func clientPart(r *h.Run) {
	if os.Getenv("C15_DEBUG_SVC") != "" { // debugging aid: only the service command order part, many times
		for rep := 0; rep < 60; rep++ {
			h.Parallel(80, 8, func(i int) { serviceOrder(r, i) })
		}
		return
	}
	nc := r.Pick(150, 3000)
	h.Parallel(nc, 16, func(i int) { clientResend(r, i) })
	r.Count("client_resend_runs", int64(nc))
	nd := r.Pick(100, 2000)
	h.Parallel(nd, 16, func(i int) { clientInbound(r, i) })
	r.Count("client_inbound_runs", int64(nd))
	ni := r.Pick(60, 1200)
	h.Parallel(ni, 8, func(i int) { serviceInbound(r, i) })
	r.Count("service_inbound_runs", int64(ni))
	ne := r.Pick(80, 1500)
	h.Parallel(ne, 8, func(i int) { serviceOrder(r, i) })
	r.Count("service_order_runs", int64(ne))
	nf := r.Pick(60, 1200)
	h.Parallel(nf, 8, func(i int) { serviceOrderDrops(r, i) })
	r.Count("service_order_with_drops_runs", int64(nf))
}
