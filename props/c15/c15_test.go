// C15 — per-publisher message order is preserved end to end, including
// retransmissions. Monitor: sequence numbers embedded in payloads, offline
// order checker per (publisher, QoS, subscriber); retransmission order against
// the sender-side log of the previous connection.
package c15

import (
	"fmt"
	"strings"
	"sync"
	"testing"
	"time"

	"github.com/256dpi/gomqtt/packet"

	"verif/internal/bh"
	"verif/internal/h"
)

// ------------------------------------------------------------ A. end to end

func endToEnd(r *h.Run, idx int) {
	if r.TooMany() {
		return
	}
	rng := r.Rand(fmt.Sprintf("c15-e2e-%d", idx))
	np, ns := 1+rng.Intn(8), 1+rng.Intn(4)
	window := 1 + rng.Intn(10)
	perQ := 3 + rng.Intn(r.Pick(12, 40))
	r.Journal("C15 end-to-end #%d publishers=%d subscribers=%d window=%d per-qos=%d", idx, np, ns, window, perQ)
	b := bh.NewBroker()
	b.Mon.Inner.ClientInflightMessages = window
	if idx%2 == 1 {
		// a small session queue: publishers regularly run into a full queue of an
		// online subscriber and are held back there (order must survive that)
		b.Mon.Inner.SessionQueueSize = 2 + idx/2%6
	}
	if idx%2 == 0 {
		b.Mon.Perturb = r.Rand(fmt.Sprintf("c15-perturb-%d", idx))
	}
	defer b.Shutdown()
	fail := func(key, msg string) {
		r.Violation(key, fmt.Sprintf("end-to-end #%d (publishers=%d subscribers=%d window=%d): %s", idx, np, ns, window, msg), map[string]interface{}{"detail": msg, "event_log_tail": b.Log.Dump(150)})
	}
	topics := []string{"o/a", "o/b", "o/a/c"}
	filters := [][]string{{"o/#"}, {"o/a", "o/b"}, {"o/+", "o/a/#"}, {"#"}}
	var subs []*bh.Peer
	granted := make([]packet.QOS, ns)
	for i := 0; i < ns; i++ {
		p, _, ca, err := b.Connect(fmt.Sprintf("sub%d", i), bh.ConnectOpts{ID: fmt.Sprintf("c15-sub%d", i), Clean: true, AutoAck: true}, nil)
		if err != nil || ca == nil {
			r.Inconclusive("subscriber could not connect")
			return
		}
		granted[i] = packet.QOS(rng.Intn(3))
		var ss []packet.Subscription
		for _, f := range filters[rng.Intn(len(filters))] {
			ss = append(ss, packet.Subscription{Topic: f, QOS: granted[i]})
		}
		ss = append(ss, packet.Subscription{Topic: "end/#", QOS: 1})
		_ = p.Send(&packet.Subscribe{ID: 1, Subscriptions: ss})
		if _, err := bh.AwaitAck(p, packet.SUBACK, 1); err != nil {
			r.Inconclusive("subscriber SUBACK")
			return
		}
		subs = append(subs, p)
	}
	var wg sync.WaitGroup
	perr := make(chan error, np)
	for i := 0; i < np; i++ {
		wg.Add(1)
		go func(i int) {
			defer wg.Done()
			name := fmt.Sprintf("pub%d", i)
			p, _, ca, err := b.Connect(name, bh.ConnectOpts{ID: "c15-" + name, Clean: true, OnPeer: func(p *bh.Peer) {
				p.AutoReply = func(g packet.Generic) []packet.Generic {
					if rec, ok := g.(*packet.Pubrec); ok {
						return []packet.Generic{&packet.Pubrel{ID: rec.ID}}
					}
					return nil
				}
			}}, nil)
			if err != nil || ca == nil {
				perr <- fmt.Errorf("publisher %d could not connect", i)
				return
			}
			prng := r.Rand(fmt.Sprintf("c15-pub-%d-%d", idx, i))
			seq := [3]int{}
			id := packet.ID(0)
			pending := 0
			for n := 0; n < 3*perQ; n++ {
				q := packet.QOS(prng.Intn(3))
				seq[q]++
				pub := &packet.Publish{Message: packet.Message{Topic: topics[prng.Intn(len(topics))], QOS: q, Payload: []byte(fmt.Sprintf("%s|q%d|%06d", name, q, seq[q]))}}
				if q > 0 {
					id++
					pub.ID = id
					pending++
				}
				if err := p.Send(pub); err != nil {
					perr <- fmt.Errorf("publisher %d: %v", i, err)
					return
				}
				// stay inside the broker's publish-token window without serialising completely
				if pending >= 8 {
					if err := bh.Ping(p); err != nil {
						perr <- fmt.Errorf("publisher %d: %v", i, err)
						return
					}
					time.Sleep(200 * time.Microsecond)
					pending = 0
				}
			}
			// completion: everything acknowledged
			want := int(id)
			ok := p.WaitCond(bh.Watchdog, func(all []packet.Generic) bool {
				n := 0
				for _, g := range all {
					switch g.(type) {
					case *packet.Puback, *packet.Pubcomp:
						n++
					}
				}
				return n >= want
			})
			if !ok {
				perr <- fmt.Errorf("publisher %d: not all publishes were acknowledged", i)
			}
		}(i)
	}
	wg.Wait()
	close(perr)
	for err := range perr {
		fail("publisher-stalled", err.Error())
		return
	}
	// end markers on both queues, published by a separate client after all publishers finished
	endc, _, eca, err := b.Connect("end", bh.ConnectOpts{ID: "c15-end", Clean: true, AutoAck: true}, nil)
	if err != nil || eca == nil {
		r.Inconclusive("end client")
		return
	}
	_ = endc.Send(&packet.Publish{Message: packet.Message{Topic: "end/x", QOS: 0, Payload: []byte("END0")}})
	_ = endc.Send(&packet.Publish{ID: 1, Message: packet.Message{Topic: "end/x", QOS: 1, Payload: []byte("END1")}})
	if _, err := bh.AwaitAck(endc, packet.PUBACK, 1); err != nil {
		r.Inconclusive("end marker PUBACK")
		return
	}
	streams := 0
	for si, s := range subs {
		ok := s.WaitCond(bh.Watchdog, func(all []packet.Generic) bool {
			a, c := false, false
			for i := len(all) - 1; i >= 0 && !(a && c); i-- {
				if p, is := all[i].(*packet.Publish); is {
					switch string(p.Message.Payload) {
					case "END0":
						a = true
					case "END1":
						c = true
					}
				}
			}
			return a && c
		})
		if !ok {
			fail("delivery-stalled", fmt.Sprintf("subscriber %d never received the end markers", si))
			return
		}
		last := map[string]int{}
		for _, g := range s.All() {
			p, is := g.(*packet.Publish)
			if !is || p.Dup || strings.HasPrefix(string(p.Message.Payload), "END") {
				continue
			}
			var name string
			var q, n int
			parts := strings.Split(string(p.Message.Payload), "|")
			if len(parts) != 3 {
				continue
			}
			name = parts[0]
			fmt.Sscanf(parts[1], "q%d", &q)
			fmt.Sscanf(parts[2], "%d", &n)
			key := fmt.Sprintf("%s|pubq%d|delq%d", name, q, p.Message.QOS)
			if n <= last[key] {
				fail("out-of-order", fmt.Sprintf("subscriber %d (granted QoS %d) received message #%d of stream %s after #%d", si, granted[si], n, key, last[key]))
				return
			}
			last[key] = n
		}
		for _, n := range last {
			if n >= 3 {
				streams++
			}
		}
	}
	if streams > 0 {
		r.NonTrivial(fmt.Sprintf("e2e:%d", idx))
	}
	r.Count("ordered_streams_checked", int64(streams))
	r.Eval()
}

// ------------------------------------------------------------ B. retransmission order (broker as sender)

func resendOrder(r *h.Run, idx int) {
	if r.TooMany() {
		return
	}
	rng := r.Rand(fmt.Sprintf("c15-resend-%d", idx))
	window := 2 + rng.Intn(9)
	k := 2 + rng.Intn(window-1) // unacknowledged at the time of the loss
	r.Journal("C15 resend #%d window=%d unacked=%d", idx, window, k)
	b := bh.NewBroker()
	b.Mon.Inner.ClientInflightMessages = window
	defer b.Shutdown()
	fail := func(key, msg string) {
		r.Violation(key, fmt.Sprintf("resend #%d (window=%d, %d unacknowledged): %s", idx, window, k, msg), map[string]interface{}{"detail": msg, "event_log_tail": b.Log.Dump(120)})
	}
	// subscriber: PUBREC for some QoS 2 messages (so that PUBRELs are stored too) and a
	// complete acknowledgement for some packets that are neither the oldest nor the newest
	recFor := map[int]bool{}
	ackFor := map[int]bool{}
	for i := 0; i < k; i++ {
		if rng.Intn(3) == 0 {
			recFor[i] = true
		} else if i > 0 && i < k-1 && rng.Intn(3) == 0 {
			ackFor[i] = true
		}
	}
	n := 0
	s0, _, ca, err := b.Connect("sub#0", bh.ConnectOpts{ID: "c15-resub", Clean: false, OnPeer: func(p *bh.Peer) {
		p.AutoReply = func(g packet.Generic) []packet.Generic {
			if pub, ok := g.(*packet.Publish); ok && pub.Message.QOS > 0 {
				i := n
				n++
				if pub.Message.QOS == 2 && recFor[i] {
					return []packet.Generic{&packet.Pubrec{ID: pub.ID}}
				}
				if pub.Message.QOS == 1 && ackFor[i] {
					return []packet.Generic{&packet.Puback{ID: pub.ID}}
				}
			}
			return nil
		}
	}}, nil)
	if err != nil || ca == nil {
		r.Inconclusive("subscriber could not connect")
		return
	}
	_ = s0.Send(&packet.Subscribe{ID: 1, Subscriptions: []packet.Subscription{{Topic: "r/#", QOS: 2}}})
	if _, err := bh.AwaitAck(s0, packet.SUBACK, 1); err != nil {
		r.Inconclusive("SUBACK")
		return
	}
	pub, _, pca, err := b.Connect("pub", bh.ConnectOpts{ID: "c15-repub", Clean: true, AutoAck: true}, nil)
	if err != nil || pca == nil {
		r.Inconclusive("publisher")
		return
	}
	for i := 0; i < k; i++ {
		q := packet.QOS(1 + rng.Intn(2))
		id := packet.ID(i + 1)
		_ = pub.Send(&packet.Publish{ID: id, Message: packet.Message{Topic: "r/x", QOS: q, Payload: []byte(fmt.Sprintf("rs-%03d", i))}})
		var err error
		if q == 1 {
			_, err = bh.AwaitAck(pub, packet.PUBACK, id)
		} else {
			if _, err = bh.AwaitAck(pub, packet.PUBREC, id); err == nil {
				_ = pub.Send(&packet.Pubrel{ID: id})
				_, err = bh.AwaitAck(pub, packet.PUBCOMP, id)
			}
		}
		if err != nil {
			r.Inconclusive("publisher handshake")
			return
		}
	}
	// wait until the subscriber has all k messages (and the PUBRELs it asked for)
	wantRel := 0
	ok := s0.WaitCond(bh.Watchdog, func(all []packet.Generic) bool {
		np, nr := 0, 0
		for _, g := range all {
			switch g.(type) {
			case *packet.Publish:
				np++
			case *packet.Pubrel:
				nr++
			}
		}
		wantRel = 0
		for i := range recFor {
			_ = i
		}
		return np >= k && nr >= countQ2Rec(all, recFor)
	})
	_ = wantRel
	if !ok {
		r.Inconclusive(fmt.Sprintf("resend #%d: subscriber did not receive the %d messages", idx, k))
		return
	}
	if err := bh.Ping(s0); err != nil { // the broker has processed the acknowledgements sent so far
		r.Inconclusive("subscriber ping")
		return
	}
	s0.Close()
	if !b.WaitClosed("sub#0", bh.Watchdog) {
		r.Inconclusive("subscriber client did not close")
		return
	}
	// original transmission order from the sender-side log of the first connection:
	// the order in which the packets that are still stored were first written.
	type ent struct{ kind, id string }
	var original []string
	state := map[packet.ID]string{}
	var orderIDs []packet.ID
	for _, e := range b.Log.Events() {
		if e.Who != "sub#0" || e.Kind != "bsend" {
			continue
		}
		switch v := e.Pkt.(type) {
		case *packet.Publish:
			if v.Message.QOS > 0 {
				if _, seen := state[v.ID]; !seen {
					orderIDs = append(orderIDs, v.ID)
				}
				state[v.ID] = "PUBLISH"
			}
		case *packet.Pubrel:
			state[v.ID] = "PUBREL"
		}
	}
	ackedIDs := map[packet.ID]bool{}
	for _, e := range b.Log.Events() {
		if e.Who == "sub#0" && e.Kind == "log:packet received" {
			if a, ok := e.Pkt.(*packet.Puback); ok {
				ackedIDs[a.ID] = true
			}
		}
	}
	for _, id := range orderIDs {
		if !ackedIDs[id] {
			original = append(original, fmt.Sprintf("%s(%d)", state[id], id))
		}
	}
	s1, _, ca1, err := b.Connect("sub#1", bh.ConnectOpts{ID: "c15-resub", Clean: false}, nil)
	if err != nil || ca1 == nil {
		r.Inconclusive("resume")
		return
	}
	if err := bh.Ping(s1); err != nil {
		r.Inconclusive("resume ping")
		return
	}
	var resent []string
	for _, g := range s1.All() {
		switch v := g.(type) {
		case *packet.Publish:
			if v.Message.QOS > 0 {
				resent = append(resent, fmt.Sprintf("PUBLISH(%d)", v.ID))
			}
		case *packet.Pubrel:
			resent = append(resent, fmt.Sprintf("PUBREL(%d)", v.ID))
		}
	}
	if len(resent) >= len(original) && fmt.Sprint(resent[:len(original)]) != fmt.Sprint(original) {
		fail("resend-order", fmt.Sprintf("packets retransmitted after the session was resumed in order %v, originally transmitted in order %v", resent, original))
	} else if len(resent) < len(original) {
		fail("resend-missing", fmt.Sprintf("retransmitted %v, stored at loss %v", resent, original))
	}
	if len(original) >= 2 {
		r.NonTrivial(fmt.Sprintf("resend:%d:%v", idx, original))
	}
	r.Eval()
	if idx < 2 {
		r.Sample(map[string]interface{}{"original_transmission_order": original, "retransmission_order": resent})
	}
}

// ------------------------------------------------------------ F. backlog across cut-and-resume cycles

func backlogResume(r *h.Run, idx int) {
	if r.TooMany() {
		return
	}
	rng := r.Rand(fmt.Sprintf("c15-backlog-%d", idx))
	window := 1 + rng.Intn(3)
	n := 5 + rng.Intn(10)
	cycles := 1 + rng.Intn(4)
	r.Journal("C15 backlog #%d window=%d n=%d cycles=%d", idx, window, n, cycles)
	b := bh.NewBroker()
	b.Mon.Inner.ClientInflightMessages = window
	defer b.Shutdown()
	var peers []*bh.Peer
	connect := func(cutAfter int) *bh.Peer {
		got := 0
		p, _, ca, err := b.Connect(fmt.Sprintf("sub#%d", len(peers)), bh.ConnectOpts{ID: "c15-backlog", Clean: false, OnPeer: func(p *bh.Peer) {
			p.AutoReply = func(g packet.Generic) []packet.Generic {
				pub, ok := g.(*packet.Publish)
				if !ok || pub.Message.QOS == 0 {
					return nil
				}
				got++
				if cutAfter > 0 && got == cutAfter {
					// acknowledge and leave at once
					_ = p.Send(&packet.Puback{ID: pub.ID})
					p.Close()
					return nil
				}
				if cutAfter > 0 && got > cutAfter {
					return nil
				}
				return []packet.Generic{&packet.Puback{ID: pub.ID}}
			}
		}}, nil)
		peers = append(peers, p)
		if err != nil || ca == nil {
			return nil
		}
		return p
	}
	s := connect(1 + rng.Intn(3))
	if s == nil {
		r.Inconclusive("subscriber could not connect")
		return
	}
	_ = s.Send(&packet.Subscribe{ID: 1, Subscriptions: []packet.Subscription{{Topic: "bl/#", QOS: 1}}})
	if _, err := bh.AwaitAck(s, packet.SUBACK, 1); err != nil {
		r.Inconclusive("SUBACK")
		return
	}
	pub, _, pca, err := b.Connect("pub", bh.ConnectOpts{ID: "c15-blpub", Clean: true, AutoAck: true}, nil)
	if err != nil || pca == nil {
		r.Inconclusive("publisher")
		return
	}
	for i := 1; i <= n; i++ {
		_ = pub.Send(&packet.Publish{ID: packet.ID(i), Message: packet.Message{Topic: "bl/x", QOS: 1, Payload: []byte(fmt.Sprintf("bl|%04d", i))}})
		if _, err := bh.AwaitAck(pub, packet.PUBACK, packet.ID(i)); err != nil {
			r.Inconclusive("publisher PUBACK")
			return
		}
	}
	lastPl := fmt.Sprintf("bl|%04d", n)
	for c := 0; c < cycles; c++ {
		// wait for the cut, or for the whole backlog to have arrived (cut point not reached)
		cutHappened := false
		for deadline := time.Now().Add(bh.Watchdog); time.Now().Before(deadline); {
			if s.WaitEOF(2 * time.Millisecond) {
				cutHappened = true
				break
			}
			done := false
			for _, g := range s.All() {
				if p, is := g.(*packet.Publish); is && string(p.Message.Payload) == lastPl {
					done = true
				}
			}
			if done {
				break
			}
		}
		if !cutHappened {
			break
		}
		b.WaitClosed(s.Name, bh.Watchdog)
		cut := 1 + rng.Intn(3)
		if c == cycles-1 {
			cut = 0
		}
		s = connect(cut)
		if s == nil {
			r.Inconclusive("resume failed")
			return
		}
	}
	if s.EOF() {
		b.WaitClosed(s.Name, bh.Watchdog)
		s = connect(0)
	}
	last := fmt.Sprintf("bl|%04d", n)
	has := func(all []packet.Generic) bool {
		for i := len(all) - 1; i >= 0; i-- {
			if p, is := all[i].(*packet.Publish); is && string(p.Message.Payload) == last {
				return true
			}
		}
		return false
	}
	ok := false
	for _, q := range peers {
		if has(q.All()) {
			ok = true
		}
	}
	if !ok {
		ok = s.WaitCond(bh.Watchdog, has)
	}
	if !ok {
		r.Violation("backlog-stalled", fmt.Sprintf("backlog #%d: the last of %d messages never arrived after %d cut-and-resume cycles", idx, n, cycles), map[string]interface{}{"event_log_tail": b.Log.Dump(150)})
		return
	}
	// order of first arrival over all connections (event log order)
	seen := map[string]bool{}
	prev := 0
	var order []int
	for _, e := range b.Log.Events() {
		if e.Kind != "precv" || !strings.HasPrefix(e.Who, "sub#") {
			continue
		}
		p, is := e.Pkt.(*packet.Publish)
		if !is || seen[string(p.Message.Payload)] {
			continue
		}
		seen[string(p.Message.Payload)] = true
		var k int
		fmt.Sscanf(string(p.Message.Payload), "bl|%d", &k)
		order = append(order, k)
		if k < prev {
			r.Violation("out-of-order-across-resume", fmt.Sprintf("backlog #%d (window=%d, %d messages, %d cut-and-resume cycles): first arrivals in order %v", idx, window, n, cycles, order), map[string]interface{}{"first_arrival_order": order, "event_log_tail": b.Log.Dump(150)})
			return
		}
		prev = k
	}
	r.NonTrivial(fmt.Sprintf("backlog:%d", idx))
	r.Eval()
}

func countQ2Rec(all []packet.Generic, recFor map[int]bool) int {
	n, c := 0, 0
	for _, g := range all {
		if pub, ok := g.(*packet.Publish); ok && pub.Message.QOS > 0 {
			if pub.Message.QOS == 2 && recFor[n] {
				c++
			}
			n++
		}
	}
	return c
}

func TestCheck(t *testing.T) {
	r := h.New("C15", "exploration")
	r.Rule("A: 1-8 publishers pipeline numbered messages at QoS 0/1/2 (3..15 per QoS) to overlapping topics read by 1-4 subscribers with different granted QoS and overlapping filters, windows 1-10, with backend-boundary perturbation; per (publisher, publish QoS, delivered QoS, subscriber) first deliveries must arrive in increasing sequence. B: a persistent subscriber with window 2-10 holds 2..window QoS 1/2 packets unacknowledged (some QoS 2 flows advanced to PUBREL), the connection is cut and resumed; the retransmission order must equal the original transmission order taken from the broker-side send log. F: a persistent subscriber with window 1-3 and a backlog of 5-14 numbered QoS 1 messages acknowledges one message and drops the connection, 1-4 times, then drains: first arrivals over all connections must be increasing. C: the client library publishes 2-10 QoS 1/2 messages without acknowledgement (some advanced to PUBREL), reconnects with the same session: retransmission order = original order. D: a scripted broker feeds the client library 10-70 numbered messages of mixed QoS: callback order per QoS = arrival order (both callback modes). E: 1-4 callers issue numbered service commands offline and online: per caller the scripted broker sees them in issue order. Non-trivial = streams of >= 3 messages, resumes with >= 2 stored packets; distinct by run")
	na := r.Pick(60, 1500)
	h.Parallel(na, 8, func(i int) { endToEnd(r, i) })
	r.Count("end_to_end_runs", int64(na))
	nb := r.Pick(150, 4000)
	h.Parallel(nb, 16, func(i int) { resendOrder(r, i) })
	r.Count("resend_runs", int64(nb))
	nf := r.Pick(200, 5000)
	h.Parallel(nf, 16, func(i int) { backlogResume(r, i) })
	r.Count("backlog_resume_runs", int64(nf))
	clientPart(r)
	h.Exit(r.Finish(50))
}
