// C14 — no client can crash or stall the broker or disturb any other client.
// Monitors: child-process liveness + journal (driver), two witness clients
// with numbered traffic and PINGRESP liveness, Setup/Terminate pairing and
// Closed() for every hostile connection, backend bookkeeping snapshot and
// goroutine census at quiescence.
package c14

import (
	"fmt"
	"math/rand"
	"strings"
	"sync"
	"testing"
	"time"

	"github.com/256dpi/gomqtt/packet"

	"verif/internal/bh"
	"verif/internal/gen"
	"verif/internal/h"
	"verif/internal/ref"
	"verif/internal/stuck"
	"verif/internal/wire"
)

var hostileTopics = []string{"", "#", "+", "a/#/b", "#/a", "a+", "a\x00b", "\x00", "a/\x00", "/", "//", "$SYS/x", "a/b", "+/+", "é/€", strings.Repeat("x", 65535), strings.Repeat("a/", 2000) + "z", "t"}

func hostileTopic(rng *rand.Rand) string { return hostileTopics[rng.Intn(len(hostileTopics))] }

type stream struct {
	Kind   string
	Bytes  []byte
	Desc   []string
	Storm  int
	Second []byte // second connection of the same client (session resumption)
}

func enc(p packet.Generic) []byte {
	b, err := ref.Encode(p)
	if err != nil {
		return nil
	}
	return b
}

func hostilePacket(rng *rand.Rand) packet.Generic {
	id := packet.ID(1 + rng.Intn(4))
	if rng.Intn(5) == 0 {
		id = packet.ID(1 + rng.Intn(65535))
	}
	switch x := rng.Intn(24); {
	case x < 7:
		p := &packet.Publish{Message: packet.Message{Topic: hostileTopic(rng), QOS: packet.QOS(rng.Intn(3)), Retain: rng.Intn(3) == 0}, Dup: rng.Intn(4) == 0}
		if rng.Intn(3) > 0 {
			p.Message.Payload = gen.Bytes(rng, rng.Intn(40))
		}
		if p.Message.QOS > 0 {
			p.ID = id
		}
		return p
	case x < 11:
		s := &packet.Subscribe{ID: id}
		for k, n := 0, 1+rng.Intn(4); k < n; k++ {
			s.Subscriptions = append(s.Subscriptions, packet.Subscription{Topic: hostileTopic(rng), QOS: packet.QOS(rng.Intn(3))})
		}
		return s
	case x < 13:
		u := &packet.Unsubscribe{ID: id}
		for k, n := 0, 1+rng.Intn(3); k < n; k++ {
			u.Topics = append(u.Topics, hostileTopic(rng))
		}
		return u
	case x < 14:
		return &packet.Puback{ID: id}
	case x < 15:
		return &packet.Pubrec{ID: id}
	case x < 17:
		return &packet.Pubrel{ID: id}
	case x < 18:
		return &packet.Pubcomp{ID: id}
	case x < 20:
		return &packet.Pingreq{}
	case x < 21:
		return &packet.Disconnect{}
	case x < 22:
		return gen.Random(rng)
	default:
		return []packet.Generic{&packet.Connack{}, &packet.Suback{ID: id, ReturnCodes: []packet.QOS{0}}, &packet.Unsuback{ID: id}, &packet.Pingresp{}, &packet.Connect{ClientID: "again", CleanSession: true}}[rng.Intn(5)]
	}
}

func hostileConnect(rng *rand.Rand) *packet.Connect {
	c := &packet.Connect{ClientID: fmt.Sprintf("h%d", rng.Intn(6)), CleanSession: rng.Intn(2) == 0, Version: 4, KeepAlive: uint16(rng.Intn(3))}
	if rng.Intn(8) == 0 {
		c.ClientID = ""
		c.CleanSession = true
	}
	if rng.Intn(3) == 0 {
		c.Will = &packet.Message{Topic: hostileTopic(rng), Payload: gen.Bytes(rng, rng.Intn(20)), QOS: packet.QOS(rng.Intn(3)), Retain: rng.Intn(2) == 0}
	}
	if rng.Intn(10) == 0 {
		c.Version = 3
	}
	return c
}

func genStream(rng *rand.Rand) stream {
	var s stream
	add := func(p packet.Generic) {
		s.Bytes = append(s.Bytes, enc(p)...)
		s.Desc = append(s.Desc, clip(ref.Canon(p)))
	}
	switch k := rng.Intn(24); {
	case k == 23:
		// more retained messages than a session queue and window hold, then a
		// subscription to all of them by a client that never acknowledges
		s.Kind = "retained-flood-then-subscribe"
		id := fmt.Sprintf("f%d", rng.Intn(100000))
		add(&packet.Connect{ClientID: id, CleanSession: true, Version: 4})
		for i := 1; i <= 150; i++ {
			add(&packet.Publish{ID: packet.ID(i), Message: packet.Message{Topic: fmt.Sprintf("flood/%s/%d", id, i), QOS: 1, Retain: true, Payload: []byte("r")}})
		}
		add(&packet.Subscribe{ID: 200, Subscriptions: []packet.Subscription{{Topic: "flood/" + id + "/#", QOS: 1}}})
		add(&packet.Pingreq{})
	case k >= 20:
		// a client that resumes its persistent session and finishes (or repeats)
		// handshakes begun on the earlier connection
		s.Kind = "resume-and-finish-handshakes"
		id := fmt.Sprintf("r%d", rng.Intn(1000))
		add(&packet.Connect{ClientID: id, CleanSession: false, Version: 4})
		n := 1 + rng.Intn(4)
		for i := 1; i <= n; i++ {
			add(&packet.Publish{ID: packet.ID(i), Message: packet.Message{Topic: "r/x", QOS: 2, Payload: []byte("r")}})
		}
		add(&packet.Subscribe{ID: 9, Subscriptions: []packet.Subscription{{Topic: "r/#", QOS: 2}}})
		second := enc(&packet.Connect{ClientID: id, CleanSession: false, Version: 4})
		for i := 1; i <= n; i++ {
			second = append(second, enc(&packet.Pubrel{ID: packet.ID(i)})...)
			if rng.Intn(3) == 0 {
				second = append(second, enc(&packet.Pubrel{ID: packet.ID(i)})...)
			}
		}
		for i := 0; i < rng.Intn(6); i++ {
			second = append(second, enc(hostilePacket(rng))...)
		}
		s.Second = second
		s.Desc = append(s.Desc, fmt.Sprintf("…second connection, same id, clean=false: PUBREL 1..%d (some repeated) + more", n))
	case k < 9:
		s.Kind = "valid-packets-any-order"
		add(hostileConnect(rng))
		for i, n := 0, 1+rng.Intn(30); i < n; i++ {
			add(hostilePacket(rng))
		}
	case k < 11:
		s.Kind = "no-connect-first"
		for i, n := 0, 1+rng.Intn(6); i < n; i++ {
			add(hostilePacket(rng))
		}
	case k < 15:
		s.Kind = "mutated-frames"
		add(hostileConnect(rng))
		for i, n := 0, 1+rng.Intn(12); i < n; i++ {
			add(hostilePacket(rng))
		}
		for i, n := 0, 1+rng.Intn(4); i < n && len(s.Bytes) > 0; i++ {
			pos := rng.Intn(len(s.Bytes))
			if pos < 14 && rng.Intn(3) != 0 {
				pos = 14 + rng.Intn(len(s.Bytes)-pos) // mostly leave the CONNECT intact
				if pos >= len(s.Bytes) {
					pos = len(s.Bytes) - 1
				}
			}
			switch rng.Intn(3) {
			case 0:
				s.Bytes[pos] ^= 1 << uint(rng.Intn(8))
			case 1:
				s.Bytes[pos] = []byte{0, 0xff, 0x7f, 0x80}[rng.Intn(4)]
			case 2:
				s.Bytes = s.Bytes[:pos+1] // truncation
			}
		}
		s.Desc = append(s.Desc, "…then mutated/truncated")
	case k < 16:
		s.Kind = "garbage"
		s.Bytes = gen.Bytes(rng, 1+rng.Intn(200))
		s.Desc = []string{fmt.Sprintf("%x", s.Bytes[:min(len(s.Bytes), 32)])}
	case k < 17:
		s.Kind = "oversized"
		add(hostileConnect(rng))
		add(&packet.Publish{Message: packet.Message{Topic: "big", Payload: gen.Bytes(rng, 300000)}})
		add(&packet.Pingreq{})
	case k < 19:
		s.Kind = "connect-disconnect-storm"
		s.Storm = 5 + rng.Intn(20)
	default:
		s.Kind = "will-then-drop"
		c := hostileConnect(rng)
		c.Will = &packet.Message{Topic: hostileTopic(rng), Payload: []byte("w"), QOS: packet.QOS(rng.Intn(3)), Retain: true}
		add(c)
	}
	return s
}

func clip(s string) string {
	if len(s) > 120 {
		return s[:120] + "…"
	}
	return s
}

func min(a, b int) int {
	if a < b {
		return a
	}
	return b
}

type witness struct {
	p    *bh.Peer
	name string
	id   packet.ID
}

// exchange sends a numbered message from a to b at each QoS and waits for it.
func exchange(a, b *witness, n int) error {
	for q := 0; q < 3; q++ {
		pl := fmt.Sprintf("%s->%s #%d q%d", a.name, b.name, n, q)
		pub := &packet.Publish{Message: packet.Message{Topic: "wit/" + a.name + "/x", QOS: packet.QOS(q), Payload: []byte(pl)}}
		if q > 0 {
			a.id++
			pub.ID = a.id
		}
		if err := a.p.Send(pub); err != nil {
			return fmt.Errorf("witness %s cannot send: %v", a.name, err)
		}
		switch q {
		case 1:
			if _, err := bh.AwaitAck(a.p, packet.PUBACK, pub.ID); err != nil {
				return fmt.Errorf("witness %s got no PUBACK: %v", a.name, err)
			}
		case 2:
			if _, err := bh.AwaitAck(a.p, packet.PUBREC, pub.ID); err != nil {
				return fmt.Errorf("witness %s got no PUBREC: %v", a.name, err)
			}
			_ = a.p.Send(&packet.Pubrel{ID: pub.ID})
			if _, err := bh.AwaitAck(a.p, packet.PUBCOMP, pub.ID); err != nil {
				return fmt.Errorf("witness %s got no PUBCOMP: %v", a.name, err)
			}
		}
		ok := b.p.WaitCond(bh.Watchdog, func(all []packet.Generic) bool {
			for i := len(all) - 1; i >= 0; i-- {
				if p, is := all[i].(*packet.Publish); is && string(p.Message.Payload) == pl {
					return true
				}
			}
			return false
		})
		if !ok {
			return fmt.Errorf("witness %s never received %q (its connection eof=%t)", b.name, pl, b.p.EOF())
		}
	}
	return nil
}

// hostile batch against one broker
func runBatch(r *h.Run, batch int, streams []stream) {
	if r.TooMany() {
		return
	}
	b := bh.NewBroker()
	b.Engine.ReadLimit = 200000
	b.Mon.Inner.ClientTokenTimeout = 4 * time.Second // well above any pause of the recording harness: a witness that acknowledges must never be timed out
	b.Mon.Perturb = r.Rand(fmt.Sprintf("c14-perturb-%d", batch))
	fail := func(key, msg string, st *stream) {
		w := map[string]interface{}{"batch": batch, "detail": msg, "event_log_tail": b.Log.Dump(120)}
		if st != nil {
			w["stream_kind"] = st.Kind
			w["stream"] = st.Desc
			w["stream_hex_prefix"] = fmt.Sprintf("%x", st.Bytes[:min(len(st.Bytes), 400)])
		}
		r.Violation(key, fmt.Sprintf("batch %d: %s", batch, msg), w)
	}
	mk := func(name string, filters ...string) *witness {
		p, _, ca, err := b.Connect(name, bh.ConnectOpts{ID: name, Clean: true, AutoAck: true}, nil)
		if err != nil || ca == nil || ca.ReturnCode != 0 {
			return nil
		}
		var subs []packet.Subscription
		for _, f := range filters {
			subs = append(subs, packet.Subscription{Topic: f, QOS: 2})
		}
		_ = p.Send(&packet.Subscribe{ID: 1, Subscriptions: subs})
		if _, err := bh.AwaitAck(p, packet.SUBACK, 1); err != nil {
			return nil
		}
		return &witness{p: p, name: name, id: 10}
	}
	w1 := mk("witness-1", "wit/witness-2/#")
	w2 := mk("witness-2", "wit/witness-1/#", "#")
	if w1 == nil || w2 == nil {
		r.Inconclusive("witnesses could not connect")
		b.Shutdown()
		return
	}
	// hostile streams, 6 at a time
	var hmu sync.Mutex
	var hostNames []string
	for at := 0; at < len(streams); at += 6 {
		end := at + 6
		if end > len(streams) {
			end = len(streams)
		}
		var jl []string
		for i := at; i < end; i++ {
			jl = append(jl, fmt.Sprintf("[%s %x]", streams[i].Kind, streams[i].Bytes[:min(len(streams[i].Bytes), 300)]))
		}
		r.Journal("C14 batch %d streams %d..%d running concurrently: %s", batch, at, end-1, strings.Join(jl, " "))
		var wg sync.WaitGroup
		for i := at; i < end; i++ {
			wg.Add(1)
			go func(i int) {
				defer wg.Done()
				st := streams[i]
				if st.Storm > 0 {
					for k := 0; k < st.Storm; k++ {
						name := fmt.Sprintf("h%d.%d", i, k)
						p, _ := b.Attach(name, nil)
						hmu.Lock()
						hostNames = append(hostNames, name)
						hmu.Unlock()
						_ = p.Send(&packet.Connect{ClientID: "storm", CleanSession: k%2 == 0, Version: 4})
						if k%3 == 0 {
							_ = p.Send(&packet.Disconnect{})
						}
						if k%4 != 0 {
							p.Next(50 * time.Millisecond)
						}
						p.Close()
					}
					return
				}
				name := fmt.Sprintf("h%d", i)
				p, _ := b.Attach(name, nil)
				hmu.Lock()
				hostNames = append(hostNames, name)
				hmu.Unlock()
				_ = p.SendRaw(st.Bytes, st.Kind)
				// a fence where possible, then leave
				_ = p.Send(&packet.Pingreq{})
				p.WaitFor(300*time.Millisecond, func(g packet.Generic) bool { _, ok := g.(*packet.Pingresp); return ok })
				p.Close()
				if st.Second != nil {
					b.WaitClosed(name, bh.Watchdog)
					name2 := name + "b"
					p2, _ := b.Attach(name2, nil)
					hmu.Lock()
					hostNames = append(hostNames, name2)
					hmu.Unlock()
					_ = p2.SendRaw(st.Second, st.Kind+" (second connection)")
					_ = p2.Send(&packet.Pingreq{})
					p2.WaitFor(300*time.Millisecond, func(g packet.Generic) bool { _, ok := g.(*packet.Pingresp); return ok })
					p2.Close()
				}
			}(i)
		}
		wg.Wait()
		// witnesses keep working
		if err := exchange(w1, w2, at); err != nil {
			fail("witness-disturbed", err.Error()+fmt.Sprintf(" after hostile streams %d..%d (kinds %v)", at, end-1, kindsOf(streams[at:end])), &streams[at])
			b.Shutdown()
			return
		}
		if err := exchange(w2, w1, at); err != nil {
			fail("witness-disturbed", err.Error()+fmt.Sprintf(" after hostile streams %d..%d", at, end-1), &streams[at])
			b.Shutdown()
			return
		}
		for _, w := range []*witness{w1, w2} {
			if err := bh.Ping(w.p); err != nil {
				fail("witness-disturbed", fmt.Sprintf("witness %s does not get PINGRESP any more: %v", w.name, err), &streams[at])
				b.Shutdown()
				return
			}
			if err := w.p.ProtocolError(); err != nil {
				fail("malformed-from-broker", err.Error(), &streams[at])
			}
		}
	}
	// every hostile connection releases its resources
	r.EvalN(len(hostNames))
	for _, name := range hostNames {
		if !b.WaitClosed(name, bh.Watchdog) {
			confirmed, stacks := stuck.Confirm(500*time.Millisecond, b.Log.Len, "github.com/256dpi/gomqtt/broker.(*Client)")
			msg := fmt.Sprintf("hostile connection %s: its peer closed long ago but the broker-side client never fired Closed()", name)
			if confirmed {
				msg += "; parked: " + stacks[0]
			}
			fail("closed-never-fires", msg, nil)
			continue
		}
		ci := b.ClientOf(name)
		snap := b.Mon.Snapshot(ci)
		setups := 0
		for _, hk := range snap.Hooks {
			if hk == "Setup" {
				setups++
			}
		}
		if (setups > 0 && snap.Terminated != 1) || (setups == 0 && snap.Terminated != 0) {
			fail("terminate-pairing", fmt.Sprintf("hostile connection %s: Setup called %d time(s), Terminate %d time(s)", name, setups, snap.Terminated), nil)
		}
		if snap.SetupOK {
			r.NonTrivial(fmt.Sprintf("b%d/%s", batch, name))
		}
	}
	active, temp, _, storedActive := b.Mon.Inner.VerifSnapshot()
	if active != 2 || temp != 2 || storedActive != 0 {
		fail("backend-bookkeeping", fmt.Sprintf("with only the two witnesses connected the backend holds %d active clients, %d temporary sessions, %d stored sessions with an active client", active, temp, storedActive), nil)
	}
	w1.p.Close()
	w2.p.Close()
	if !b.Shutdown() {
		fail("shutdown-timeout", "MemoryBackend.Close did not see all clients close", nil)
	}
	b.WaitClosed("witness-1", bh.Watchdog)
	b.WaitClosed("witness-2", bh.Watchdog)
	r.Distinct("event_traces", b.Log.Trace())
}

func kindsOf(ss []stream) []string {
	var out []string
	for _, s := range ss {
		out = append(out, s.Kind)
	}
	return out
}

// session of a well-behaved client, used by the backend-failure schedules
func shortSession(b *bh.Broker, name, id string) {
	p, _, ca, err := b.Connect(name, bh.ConnectOpts{ID: id, Clean: false, AutoAck: true, Will: &packet.Message{Topic: "w/" + id, Payload: []byte("w"), QOS: 1}}, nil)
	if err != nil || ca == nil || ca.ReturnCode != 0 {
		p.Close()
		return
	}
	steps := []packet.Generic{
		&packet.Subscribe{ID: 1, Subscriptions: []packet.Subscription{{Topic: "s/#", QOS: 1}}},
		&packet.Publish{ID: 2, Message: packet.Message{Topic: "s/a", QOS: 1, Payload: []byte("one"), Retain: true}},
		&packet.Publish{ID: 3, Message: packet.Message{Topic: "s/b", QOS: 2, Payload: []byte("two")}},
		&packet.Pubrel{ID: 3},
		&packet.Unsubscribe{ID: 4, Topics: []string{"s/#"}},
	}
	for _, s := range steps {
		if p.Send(s) != nil {
			break
		}
		if bh.Ping(p) != nil {
			break
		}
	}
	_ = p.Send(&packet.Disconnect{})
	p.WaitEOF(2 * time.Second)
	p.Close()
}

func checkAllClosed(r *h.Run, b *bh.Broker, label string) {
	if late := b.Mon.SetupAfterClose; len(late) > 0 {
		r.Violation("setup-after-close", fmt.Sprintf("%s: MemoryBackend.Close had returned, yet Setup called afterwards succeeded for %v (a connection admitted to a backend that was shut down)", label, late), map[string]interface{}{"scenario": label, "event_log_tail": b.Log.Dump(120)})
	}
	for _, ci := range b.Mon.Clients() {
		snap := b.Mon.Snapshot(ci)
		select {
		case <-snap.Client.Closed():
		case <-time.After(bh.Watchdog):
			r.Violation("closed-never-fires", fmt.Sprintf("%s: connection %s never fired Closed()", label, snap.Name), map[string]interface{}{"scenario": label, "event_log_tail": b.Log.Dump(120)})
			continue
		}
		snap = b.Mon.Snapshot(ci)
		setups := 0
		for _, hk := range snap.Hooks {
			if hk == "Setup" {
				setups++
			}
		}
		if (setups > 0 && snap.Terminated != 1) || (setups == 0 && snap.Terminated != 0) {
			r.Violation("terminate-pairing", fmt.Sprintf("%s: connection %s: Setup called %d time(s), Terminate %d time(s)", label, snap.Name, setups, snap.Terminated), map[string]interface{}{"scenario": label, "hooks": snap.Hooks, "event_log_tail": b.Log.Dump(120)})
		}
	}
}

// floodSubscriber: a client stores more retained messages than its session
// queue and window hold, subscribes to all of them and never acknowledges. With
// a long token timeout (60 s) nothing but the broker's own handling ends that
// client; two witnesses must keep exchanging messages all the while.
func floodSubscriber(r *h.Run, idx int) {
	if r.TooMany() {
		return
	}
	r.Journal("C14 flood subscriber #%d", idx)
	b := bh.NewBroker()
	b.Mon.Inner.ClientTokenTimeout = 60 * time.Second
	fail := func(key, msg string) {
		r.Violation(key, fmt.Sprintf("flood subscriber #%d: %s", idx, msg), map[string]interface{}{"detail": msg, "event_log_tail": b.Log.Dump(100)})
	}
	w1, _, c1, e1 := b.Connect("witness-1", bh.ConnectOpts{ID: "fw1", Clean: true, AutoAck: true}, nil)
	w2, _, c2, e2 := b.Connect("witness-2", bh.ConnectOpts{ID: "fw2", Clean: true, AutoAck: true}, nil)
	if e1 != nil || e2 != nil || c1 == nil || c2 == nil {
		r.Inconclusive("flood subscriber: witnesses could not connect")
		b.Shutdown()
		return
	}
	_ = w2.Send(&packet.Subscribe{ID: 1, Subscriptions: []packet.Subscription{{Topic: "wit/#", QOS: 1}}})
	if _, err := bh.AwaitAck(w2, packet.SUBACK, 1); err != nil {
		r.Inconclusive("flood subscriber: witness SUBACK")
		b.Shutdown()
		return
	}
	hp, _, hca, err := b.Connect("hostile", bh.ConnectOpts{ID: "flooder", Clean: idx%2 == 0}, nil)
	if err != nil || hca == nil {
		r.Inconclusive("flood subscriber: hostile could not connect")
		b.Shutdown()
		return
	}
	nret := 130 + idx%3*40
	q := packet.QOS(1 + idx%2)
	for i := 1; i <= nret; i++ {
		_ = hp.Send(&packet.Publish{ID: packet.ID(i), Message: packet.Message{Topic: fmt.Sprintf("flood/%d", i), QOS: 1, Retain: true, Payload: []byte("r")}})
	}
	_ = hp.Send(&packet.Subscribe{ID: 9999, Subscriptions: []packet.Subscription{{Topic: "flood/#", QOS: q}}})
	// wait until the broker is dealing with that subscription
	reached := false
	for w := 0; w < 40000 && !reached; w++ {
		for _, e := range b.Log.Events() {
			if e.Who == "hostile" && e.Kind == "hook:Subscribe:call" {
				reached = true
				break
			}
		}
		if !reached {
			time.Sleep(500 * time.Microsecond)
		}
	}
	if !reached {
		r.Inconclusive(fmt.Sprintf("flood subscriber #%d: the SUBSCRIBE never reached the backend", idx))
		go b.Shutdown()
		return
	}
	// the witnesses go on: five numbered messages must arrive
	for i := 0; i < 5; i++ {
		_ = w1.Send(&packet.Publish{ID: packet.ID(100 + i), Message: packet.Message{Topic: "wit/x", QOS: 1, Payload: []byte(fmt.Sprintf("w%d", i))}})
	}
	ok := w2.WaitCond(bh.Watchdog, func(all []packet.Generic) bool {
		n := 0
		for _, g := range all {
			if pp, is := g.(*packet.Publish); is && pp.Message.Topic == "wit/x" {
				n++
			}
		}
		return n >= 5
	})
	if !ok {
		confirmed, stacks := stuck.Confirm(time.Second, b.Log.Len, "github.com/256dpi/gomqtt/broker")
		if confirmed {
			fail("broker-stalled-by-client", fmt.Sprintf("a client with %d retained messages subscribed to all of them without acknowledging; the witnesses' messages have not been delivered for 20 s and broker goroutines are parked, e.g.\n%s", nret, stacks[0]))
		} else {
			r.Inconclusive(fmt.Sprintf("flood subscriber #%d: witnesses slow, no confirmed stuck state", idx))
		}
		go b.Shutdown()
		return
	}
	hp.Close()
	w1.Close()
	w2.Close()
	b.Shutdown()
	r.Eval()
	r.NonTrivial(fmt.Sprintf("flood:%d", idx))
}

// publishFlood: a client pipelines hundreds of QoS 1 publishes onto a topic a
// witness is subscribed to, so the witness's session queue is full most of the
// time (stock configuration). The witness acknowledges everything; messages
// another witness publishes to it meanwhile must all arrive: a full queue of a
// connected subscriber holds publishers back, it does not drop.
func publishFlood(r *h.Run, idx int) {
	if r.TooMany() {
		return
	}
	r.Journal("C14 publish flood #%d", idx)
	b := bh.NewBroker()
	b.Mon.Inner.SessionQueueSize = 3 + idx%4 // small, so that it really is full most of the time; token timeouts stay at their defaults
	defer b.Shutdown()
	fail := func(key, msg string) {
		r.Violation(key, fmt.Sprintf("publish flood #%d: %s", idx, msg), map[string]interface{}{"detail": msg, "event_log_tail": b.Log.Dump(80)})
	}
	w1, _, c1, e1 := b.Connect("witness-1", bh.ConnectOpts{ID: "pw1", Clean: true, AutoAck: true}, nil)
	w2, _, c2, e2 := b.Connect("witness-2", bh.ConnectOpts{ID: "pw2", Clean: idx%2 == 0, AutoAck: true}, nil)
	hp, _, c3, e3 := b.Connect("hostile", bh.ConnectOpts{ID: "pflood", Clean: true, AutoAck: true}, nil)
	if e1 != nil || e2 != nil || e3 != nil || c1 == nil || c2 == nil || c3 == nil {
		r.Inconclusive("publish flood: clients could not connect")
		return
	}
	_ = w2.Send(&packet.Subscribe{ID: 1, Subscriptions: []packet.Subscription{{Topic: "wit/#", QOS: 1}}})
	if _, err := bh.AwaitAck(w2, packet.SUBACK, 1); err != nil {
		r.Inconclusive("publish flood: witness SUBACK")
		return
	}
	nflood, nwit := 400+idx%3*200, 40
	go func() {
		for i := 1; i <= nflood; i++ {
			if hp.Send(&packet.Publish{ID: packet.ID(i), Message: packet.Message{Topic: "wit/flood", QOS: 1, Payload: []byte("f")}}) != nil {
				return
			}
		}
	}()
	for i := 1; i <= nwit; i++ {
		_ = w1.Send(&packet.Publish{ID: packet.ID(i), Message: packet.Message{Topic: "wit/x", QOS: 1, Payload: []byte(fmt.Sprintf("w%03d", i))}})
	}
	if _, err := bh.AwaitAck(w1, packet.PUBACK, packet.ID(nwit)); err != nil {
		r.Inconclusive(fmt.Sprintf("publish flood #%d: the witness publisher was not acknowledged within the watchdog", idx))
		return
	}
	// everything the broker acknowledged to witness-1 reaches witness-2
	count := func(all []packet.Generic) int {
		n := 0
		for _, g := range all {
			if pp, is := g.(*packet.Publish); is && pp.Message.Topic == "wit/x" && !pp.Dup {
				n++
			}
		}
		return n
	}
	ok := w2.WaitCond(bh.Watchdog, func(all []packet.Generic) bool { return count(all) >= nwit })
	if !ok {
		if w2.EOF() {
			fail("witness-disturbed", "the subscribing witness was disconnected during a publish flood by another client")
		} else {
			fail("witness-messages-lost-under-flood", fmt.Sprintf("%d of %d acknowledged messages reached the connected, acknowledging witness while another client flooded its topic with %d publishes", count(w2.All()), nwit, nflood))
		}
		return
	}
	r.Eval()
	r.NonTrivial(fmt.Sprintf("pflood:%d", idx))
}

func TestCheck(t *testing.T) {
	r := h.New("C14", "exploration")
	r.Rule("hostile peers that always read send byte streams of 10 kinds {retained flood (150 retained QoS 1 messages, then a subscription to all of them, never acknowledged), resumed sessions finishing handshakes, valid packets in any order with small/repeating ids and hostile topics/filters (empty, wildcard-bearing, NUL-bearing, 64 KiB, deep), no CONNECT first, mutated/truncated frames, garbage, oversized packet, connect/disconnect storms on one id, hostile wills}, 6 at a time against one broker with backend-boundary perturbation, while two witnesses exchange numbered QoS 0/1/2 messages and PINGs after every group; every hostile connection must reach Closed() with Setup/Terminate paired; backend bookkeeping must show only the witnesses; separately MemoryBackend.Close fired at every backend hook-call index of a running session and called synchronously between one client's Authenticate and Setup (no Setup that begins after Close returned may succeed), every backend hook failing at its k-th call, a takeover hitting KillTimeout through a slow Terminate, and a client that stores 130-210 retained messages, subscribes to all of them and never acknowledges while the token timeout is 60 s (the witnesses' traffic must go on), and a publish flood of 400-800 QoS 1 messages onto a witness's topic under the stock configuration (every acknowledged witness message must still arrive). Process death is detected by the driver from the journal. Non-trivial = hostile connections that got past CONNECT (Setup succeeded); distinct by connection")
	r.Assume("hostile peers keep reading (a peer that stops reading is the recorded C13 mechanism) and never use a witness's client id")
	nb := r.Pick(24, 500)
	per := 36
	h.Parallel(nb, 8, func(bi int) {
		rng := r.Rand(fmt.Sprintf("c14-batch-%d", bi))
		var ss []stream
		for i := 0; i < per; i++ {
			ss = append(ss, genStream(rng))
		}
		if bi == 0 {
			r.Sample(map[string]interface{}{"stream_kind": ss[0].Kind, "stream": ss[0].Desc})
			r.Sample(map[string]interface{}{"stream_kind": ss[1].Kind, "stream": ss[1].Desc})
		}
		runBatch(r, bi, ss)
	})
	r.Count("hostile_streams", int64(nb*per))

	// ---- backend shutdown racing with a running session: Close at every hook-call index
	maxCalls := 40
	h.Parallel(maxCalls*r.Pick(2, 10), 8, func(i int) {
		n := 1 + i%maxCalls
		label := fmt.Sprintf("MemoryBackend.Close fired at backend hook call #%d of two concurrent sessions", n)
		r.Journal("C14 %s", label)
		b := bh.NewBroker()
		b.Mon.CloseAt = n
		var wg sync.WaitGroup
		for k := 0; k < 2; k++ {
			wg.Add(1)
			go func(k int) { defer wg.Done(); shortSession(b, fmt.Sprintf("s%d", k), fmt.Sprintf("id%d", k)) }(k)
		}
		wg.Wait()
		b.Mon.Inner.Close(bh.Watchdog)
		checkAllClosed(r, b, label)
		r.Eval()
		r.NonTrivial(fmt.Sprintf("close@%d/%d", n, i/maxCalls))
	})
	// ---- backend shutdown between one client's Authenticate and its Setup
	for i := 0; i < r.Pick(6, 30); i++ {
		k := 1 + i%3
		label := fmt.Sprintf("MemoryBackend.Close called after Authenticate call #%d returned, before that client's Setup (three sessions)", k)
		r.Journal("C14 %s", label)
		b := bh.NewBroker()
		b.Mon.CloseAfterAuth = k
		var wg sync.WaitGroup
		for j := 0; j < 2; j++ {
			wg.Add(1)
			go func(j int) { defer wg.Done(); shortSession(b, fmt.Sprintf("s%d", j), fmt.Sprintf("id%d", j)) }(j)
		}
		wg.Wait()
		shortSession(b, "after", "after-id")
		checkAllClosed(r, b, label)
		r.Eval()
		r.NonTrivial(fmt.Sprintf("close-after-auth@%d", k))
	}
	// ---- each backend hook failing at its k-th call
	hooks := []string{"Authenticate", "Setup", "Restore", "Subscribe", "Unsubscribe", "Publish", "Dequeue", "Terminate"}
	var hf []bh.HookFault
	for _, hk := range hooks {
		for k := 1; k <= 4; k++ {
			hf = append(hf, bh.HookFault{Hook: hk, K: k, Before: true}, bh.HookFault{Hook: hk, K: k, Before: false})
		}
	}
	h.Parallel(len(hf)*r.Pick(1, 6), 8, func(i int) {
		f := hf[i%len(hf)]
		label := fmt.Sprintf("backend hook %s fails at call #%d (before inner call=%t)", f.Hook, f.K, f.Before)
		r.Journal("C14 %s", label)
		b := bh.NewBroker()
		b.Mon.AddFault(f)
		var wg sync.WaitGroup
		for k := 0; k < 2; k++ {
			wg.Add(1)
			go func(k int) { defer wg.Done(); shortSession(b, fmt.Sprintf("s%d", k), "same-id") }(k)
		}
		wg.Wait()
		shortSession(b, "after", "after-id")
		b.Mon.Inner.Close(bh.Watchdog)
		checkAllClosed(r, b, label)
		r.Eval()
		r.NonTrivial(label)
	})
	// ---- takeover running into KillTimeout (slow Terminate)
	for i := 0; i < r.Pick(3, 20); i++ {
		label := "takeover with KillTimeout shorter than the old client's Terminate"
		r.Journal("C14 %s", label)
		b := bh.NewBroker()
		b.Mon.Inner.KillTimeout = 30 * time.Millisecond
		b.Mon.SlowTerminate = 150 * time.Millisecond
		p1, _, ca, _ := b.Connect("first", bh.ConnectOpts{ID: "kt", Clean: false, AutoAck: true}, func(fc *bh.FConn, be, pe *wire.End) {})
		if ca != nil {
			p2, _, _, _ := b.Connect("second", bh.ConnectOpts{ID: "kt", Clean: false, AutoAck: true}, nil)
			p2.WaitEOF(2 * time.Second)
			p2.Close()
		}
		p1.Close()
		b.Mon.Inner.Close(bh.Watchdog)
		checkAllClosed(r, b, label)
		r.Eval()
	}
	// ---- a client that floods itself with retained messages
	nfl := r.Pick(4, 40)
	h.Parallel(nfl, 4, func(i int) { floodSubscriber(r, i) })
	r.Count("flood_subscriber_runs", int64(nfl))
	npf := r.Pick(6, 60)
	h.Parallel(npf, 3, func(i int) { publishFlood(r, i) })
	r.Count("publish_flood_runs", int64(npf))
	// ---- goroutine census: nothing of the repository may still be running
	time.Sleep(50 * time.Millisecond)
	left := stuck.Parked(stuck.Dump(), "github.com/256dpi/gomqtt/")
	if len(left) > 0 {
		time.Sleep(time.Second)
		left2 := stuck.Parked(stuck.Dump(), "github.com/256dpi/gomqtt/")
		n := 0
		var sample string
		for id, st := range left {
			if left2[id] == st {
				n++
				sample = st
			}
		}
		if n > 0 {
			r.Violation("goroutines-left", fmt.Sprintf("%d goroutine(s) with repository frames are still parked after every connection and backend was closed, e.g.\n%s", n, sample), map[string]interface{}{"stack": sample})
		}
	}
	r.Count("goroutines_left_after_everything_closed", int64(len(left)))
	h.Exit(r.Finish(100))
}
