// C12 — the will is published exactly once iff an accepted client ends without
// DISCONNECT. Monitor: count of Backend.Publish calls made on behalf of the dying
// client with the will's content, taken after its Closed() fired; observers
// (online, offline persistent, late/retained) must be consistent with it.
package c12

import (
	"bytes"
	"fmt"
	"testing"
	"time"

	"github.com/256dpi/gomqtt/packet"

	"verif/internal/bh"
	"verif/internal/h"
	"verif/internal/ref"
	"verif/internal/wire"
)

type scenario struct {
	Cause  string
	State  string
	QoS    packet.QOS
	Retain bool
}

func (s scenario) String() string {
	return fmt.Sprintf("cause=%s state=%s will(qos=%d retain=%t)", s.Cause, s.State, s.QoS, s.Retain)
}

var causes = []string{"disconnect", "disconnect-then-vanish", "peer-eof", "corrupt-frame", "second-connect", "connack-from-client", "suback-from-client", "pingresp-from-client", "oversized", "keepalive-expiry", "takeover-clean", "takeover-unclean", "backend-close", "token-timeout", "backend-publish-fails", "backend-subscribe-fails", "auth-rejected", "setup-fails", "connack-send-fails-before", "connack-send-fails-after"}
var states = []string{"idle", "inbound-q1-done", "inbound-q2-open", "outbound-unacked", "blocked-on-token", "outbound-traffic-flowing"}

func applicable(s scenario) bool {
	switch s.Cause {
	case "auth-rejected", "setup-fails", "connack-send-fails-before", "connack-send-fails-after":
		return s.State == "idle"
	case "token-timeout":
		return s.State == "blocked-on-token"
	}
	if s.Cause == "disconnect-then-vanish" {
		return s.State == "idle" || s.State == "inbound-q1-done"
	}
	if s.State == "outbound-traffic-flowing" {
		// a silent client the broker keeps forwarding QoS 0 traffic to: only keep-alive can end it
		// ... or its own DISCONNECT, over a connection whose close takes 15 ms
		// while the broker keeps forwarding to it
		return s.Cause == "keepalive-expiry" || s.Cause == "disconnect"
	}
	if s.State == "blocked-on-token" {
		// the processor does not read while it waits for a token
		return s.Cause == "peer-eof" || s.Cause == "takeover-clean" || s.Cause == "takeover-unclean" || s.Cause == "backend-close"
	}
	return true
}

func run(r *h.Run, sc scenario) {
	if r.TooMany() {
		return
	}
	r.Journal("C12 %v", sc)
	b := bh.NewBroker()
	in := b.Mon.Inner
	in.ClientParallelPublishes = 1
	in.ClientTokenTimeout = 20 * time.Second
	if sc.State == "blocked-on-token" {
		// a processor blocked on a token notices nothing else until the token timeout
		in.ClientTokenTimeout = 300 * time.Millisecond
	}
	if sc.Cause == "token-timeout" {
		in.ClientTokenTimeout = 60 * time.Millisecond
	}
	if sc.Cause == "auth-rejected" {
		in.Credentials = map[string]string{"good": "pw"}
	}
	b.Engine.ReadLimit = 4096
	if sc.Cause == "disconnect-then-vanish" {
		// buffered writes: the PINGRESP is still unflushed when the DISCONNECT is
		// processed, and the flush at close fails because the peer is gone
		b.Engine.MaxWriteDelay = 20 * time.Millisecond
	}
	closedBackend := false
	defer func() {
		if !closedBackend {
			b.Shutdown()
		}
	}()
	fail := func(key, msg string) {
		r.Violation(key, fmt.Sprintf("%v: %s", sc, msg), map[string]interface{}{"scenario": sc.String(), "detail": msg, "event_log_tail": b.Log.Dump(150)})
	}
	user, pass := "", ""
	if sc.Cause == "auth-rejected" {
		user, pass = "good", "pw"
	}
	willPayload := []byte(fmt.Sprintf("will-of-victim-%s-%s", sc.Cause, sc.State))
	will := &packet.Message{Topic: "will/v", Payload: willPayload, QOS: sc.QoS, Retain: sc.Retain}

	// observers
	obs, _, oca, err := b.Connect("observer", bh.ConnectOpts{ID: "observer", Clean: true, AutoAck: true, User: user, Pass: pass}, nil)
	if err != nil || oca == nil || oca.ReturnCode != 0 {
		r.Inconclusive(fmt.Sprintf("%v: observer could not connect", sc))
		return
	}
	_ = obs.Send(&packet.Subscribe{ID: 1, Subscriptions: []packet.Subscription{{Topic: "will/#", QOS: 2}}})
	if _, err := bh.AwaitAck(obs, packet.SUBACK, 1); err != nil {
		r.Inconclusive("observer SUBACK")
		return
	}
	off, _, fca, err := b.Connect("offline#0", bh.ConnectOpts{ID: "offline-observer", Clean: false, AutoAck: true, User: user, Pass: pass}, nil)
	if err != nil || fca == nil {
		r.Inconclusive("offline observer could not connect")
		return
	}
	_ = off.Send(&packet.Subscribe{ID: 1, Subscriptions: []packet.Subscription{{Topic: "will/#", QOS: 1}}})
	if _, err := bh.AwaitAck(off, packet.SUBACK, 1); err != nil {
		r.Inconclusive("offline observer SUBACK")
		return
	}
	_ = off.Send(&packet.Disconnect{})
	off.WaitEOF(bh.Watchdog)
	b.WaitClosed("offline#0", bh.Watchdog)
	helper, _, hca, err := b.Connect("helper", bh.ConnectOpts{ID: "helper", Clean: true, AutoAck: true, User: user, Pass: pass}, nil)
	if err != nil || hca == nil {
		r.Inconclusive("helper could not connect")
		return
	}

	// backend faults aimed at the victim: counted per hook over the whole backend,
	// so they are armed right before the victim's triggering request
	// ---- victim
	vopts := bh.ConnectOpts{ID: "victim", Clean: true, Will: will, KeepAlive: 0, User: user, Pass: pass}
	if sc.Cause == "auth-rejected" {
		vopts.Pass = "wrong"
	}
	if sc.Cause == "keepalive-expiry" {
		// only the victim gets the short maximum keep-alive (read at its Setup)
		in.ClientMaximumKeepAlive = 40 * time.Millisecond
		if sc.State == "outbound-traffic-flowing" {
			// the outbound stream must not pause for longer than the read timeout
			// (1.5 x keep-alive) or the scenario degenerates into the idle one;
			// pauses of 50-90 ms were observed in the recording harness, so this
			// state uses 300 ms
			in.ClientMaximumKeepAlive = 200 * time.Millisecond
		}
	}
	if sc.Cause == "setup-fails" {
		b.Mon.AddFault(bh.HookFault{Hook: "Setup", K: 4, Before: true}) // observer, offline observer, helper, victim
	}
	v, _, vca, err := b.Connect("victim", vopts, func(fc *bh.FConn, be, pe *wire.End) {
		switch sc.Cause {
		case "connack-send-fails-before":
			fc.AddFault(bh.Fault{Dir: "send", K: 1, When: "before"})
		case "connack-send-fails-after":
			fc.AddFault(bh.Fault{Dir: "send", K: 1, When: "after"})
		}
		if sc.Cause == "disconnect" && sc.State == "outbound-traffic-flowing" {
			fc.CloseDelay = 15 * time.Millisecond
		}
	})
	in.ClientMaximumKeepAlive = 0
	if err != nil {
		r.Inconclusive(fmt.Sprintf("%v: victim CONNACK watchdog", sc))
		return
	}
	accepted := vca != nil && vca.ReturnCode == 0
	preAck := sc.Cause == "auth-rejected" || sc.Cause == "setup-fails" || sc.Cause == "connack-send-fails-before" || sc.Cause == "connack-send-fails-after"
	if !accepted && !preAck {
		fail("victim-not-accepted", fmt.Sprintf("victim did not get CONNACK(0): %v", vca))
		return
	}
	if sc.Cause == "auth-rejected" && (vca == nil || vca.ReturnCode != packet.NotAuthorized) {
		fail("auth-reply", fmt.Sprintf("rejected authentication answered with %v", vca))
	}
	if accepted {
		// ---- bring the victim into the protocol state
		switch sc.State {
		case "inbound-q1-done":
			_ = v.Send(&packet.Publish{ID: 5, Message: packet.Message{Topic: "other/x", QOS: 1, Payload: []byte("x")}})
			if _, err := bh.AwaitAck(v, packet.PUBACK, 5); err != nil {
				r.Inconclusive("victim PUBACK")
				return
			}
		case "inbound-q2-open":
			_ = v.Send(&packet.Publish{ID: 6, Message: packet.Message{Topic: "other/x", QOS: 2, Payload: []byte("x")}})
			if _, err := bh.AwaitAck(v, packet.PUBREC, 6); err != nil {
				r.Inconclusive("victim PUBREC")
				return
			}
		case "outbound-unacked":
			_ = v.Send(&packet.Subscribe{ID: 7, Subscriptions: []packet.Subscription{{Topic: "v/in", QOS: 1}}})
			if _, err := bh.AwaitAck(v, packet.SUBACK, 7); err != nil {
				r.Inconclusive("victim SUBACK")
				return
			}
			_ = helper.Send(&packet.Publish{ID: 9, Message: packet.Message{Topic: "v/in", QOS: 1, Payload: []byte("to-victim")}})
			if _, err := bh.AwaitAck(helper, packet.PUBACK, 9); err != nil {
				r.Inconclusive("helper PUBACK")
				return
			}
			if _, err := v.WaitFor(bh.Watchdog, func(g packet.Generic) bool { _, ok := g.(*packet.Publish); return ok }); err != nil {
				r.Inconclusive("victim did not receive the outbound message")
				return
			}
		case "outbound-traffic-flowing":
			_ = v.Send(&packet.Subscribe{ID: 7, Subscriptions: []packet.Subscription{{Topic: "busy/#", QOS: 0}}})
			if _, err := bh.AwaitAck(v, packet.SUBACK, 7); err != nil {
				r.Inconclusive("victim SUBACK")
				return
			}
			stopFlow := make(chan struct{})
			defer close(stopFlow)
			// two pumps at 5 ms: the gaps in the outbound stream stay far below the
			// read timeout (300 ms in this state) also when one pump is delayed
			for pump := 0; pump < 2; pump++ {
				go func() {
					for i := 0; ; i++ {
						select {
						case <-stopFlow:
							return
						case <-time.After(5 * time.Millisecond):
						}
						if helper.Send(&packet.Publish{Message: packet.Message{Topic: "busy/x", Payload: []byte("tick")}}) != nil {
							return
						}
					}
				}()
			}
		case "blocked-on-token":
			_ = v.Send(&packet.Publish{ID: 6, Message: packet.Message{Topic: "other/x", QOS: 2, Payload: []byte("x")}})
			if _, err := bh.AwaitAck(v, packet.PUBREC, 6); err != nil {
				r.Inconclusive("victim PUBREC")
				return
			}
			// the only publish token is taken until PUBCOMP: the next QoS>0 publish blocks the processor
			_ = v.Send(&packet.Publish{ID: 8, Message: packet.Message{Topic: "other/x", QOS: 1, Payload: []byte("y")}})
			time.Sleep(2 * time.Millisecond) // shaping only
		}
		// ---- the cause strikes
		switch sc.Cause {
		case "disconnect":
			_ = v.Send(&packet.Disconnect{})
		case "peer-eof":
			v.Close()
		case "corrupt-frame":
			_ = v.SendRaw([]byte{0x30, 0x03, 0xff, 0xff, 0x00}, "corrupt frame")
		case "second-connect":
			_ = v.Send(&packet.Connect{ClientID: "victim", CleanSession: true, Version: 4})
		case "connack-from-client":
			_ = v.Send(&packet.Connack{})
		case "suback-from-client":
			_ = v.Send(&packet.Suback{ID: 3, ReturnCodes: []packet.QOS{0}})
		case "pingresp-from-client":
			_ = v.Send(&packet.Pingresp{})
		case "oversized":
			_ = v.Send(&packet.Publish{Message: packet.Message{Topic: "other/big", Payload: bytes.Repeat([]byte{'z'}, 9000)}})
		case "disconnect-then-vanish":
			pr, _ := ref.Encode(&packet.Pingreq{})
			dc, _ := ref.Encode(&packet.Disconnect{})
			_ = v.SendRaw(append(pr, dc...), "PINGREQ+DISCONNECT in one write, then the peer vanishes")
			v.Close()
		case "keepalive-expiry":
			// stay silent; the broker's read timeout (1.5 x 40 ms) closes the connection
		case "takeover-clean", "takeover-unclean":
			_, _, ca2, err := b.Connect("victim-successor", bh.ConnectOpts{ID: "victim", Clean: sc.Cause == "takeover-clean", User: user, Pass: pass}, nil)
			if err != nil || ca2 == nil {
				fail("takeover-failed", fmt.Sprintf("the successor connection did not get a CONNACK: %v %v", ca2, err))
			}
		case "backend-close":
			closedBackend = true
			if !in.Close(bh.Watchdog) {
				r.Inconclusive(fmt.Sprintf("%v: MemoryBackend.Close timed out", sc))
				return
			}
		case "token-timeout":
			// wait for the kill
		case "backend-publish-fails":
			snap := 0
			for _, ci := range b.Mon.Clients() {
				snap += len(b.Mon.Snapshot(ci).Publishes)
			}
			b.Mon.AddFault(bh.HookFault{Hook: "Publish", K: snap + 1, Before: true})
			_ = v.Send(&packet.Publish{Message: packet.Message{Topic: "other/fail", Payload: []byte("f")}})
		case "backend-subscribe-fails":
			nsub := 0
			for _, ci := range b.Mon.Clients() {
				for _, hk := range b.Mon.Snapshot(ci).Hooks {
					if hk == "Subscribe" {
						nsub++
					}
				}
			}
			b.Mon.AddFault(bh.HookFault{Hook: "Subscribe", K: nsub + 1, Before: true})
			_ = v.Send(&packet.Subscribe{ID: 11, Subscriptions: []packet.Subscription{{Topic: "x/y", QOS: 0}}})
		}
	}
	// ---- wait for the victim's broker-side client to be fully closed
	if sc.State == "outbound-traffic-flowing" && sc.Cause == "keepalive-expiry" {
		// Decided in packets, not in waiting time: the broker has written 600
		// PUBLISH packets to the silent victim (the pumps need more than 1.5 s,
		// five read timeouts, to produce them) and its client is still not
		// closed: keep-alive is not enforced while traffic flows. A process-wide
		// pause (GC under the race detector) stops the pumps as well, so it cannot
		// fake the count.
		for waited := 0; waited < 400; waited++ {
			if b.WaitClosed("victim", 50*time.Millisecond) {
				break
			}
			sent, first, last := 0, time.Duration(0), time.Duration(0)
			for _, e := range b.Log.Events() {
				if e.Who == "victim" && e.Kind == "bsend" {
					if pp, ok := e.Pkt.(*packet.Publish); ok && pp.Message.Topic == "busy/x" {
						if sent == 0 {
							first = e.At
						}
						sent++
						last = e.At
					}
				}
			}
			if sent >= 600 && last-first >= 1500*time.Millisecond {
				fail("keepalive-not-enforced-while-traffic-flows", fmt.Sprintf("the broker wrote %d PUBLISH packets over %v to a victim that has been silent since its SUBSCRIBE (keep-alive 200 ms, read timeout 300 ms) and its client is still not closed", sent, last-first))
				return
			}
		}
	}
	if !b.WaitClosed("victim", bh.Watchdog) {
		key := "victim-not-closed"
		if sc.State == "outbound-traffic-flowing" {
			key = "keepalive-not-enforced-while-traffic-flows"
		}
		fail(key, "the victim's broker-side client never reached Closed() (keep-alive 40 ms / 200 ms under traffic, silent for 20 s)")
		return
	}
	ci := b.ClientOf("victim")
	snap := b.Mon.Snapshot(ci)
	n := 0
	for _, m := range snap.Publishes {
		if m.Topic == will.Topic && bytes.Equal(m.Payload, willPayload) {
			n++
			if m.QOS != sc.QoS || m.Retain != sc.Retain {
				fail("will-altered", fmt.Sprintf("will published with qos=%d retain=%t, supplied qos=%d retain=%t", m.QOS, m.Retain, sc.QoS, sc.Retain))
			}
		}
	}
	want := 0
	if snap.SetupOK && !snap.Disconnect {
		want = 1
	}
	if n != want {
		key := "will-missing"
		if n > want {
			key = "will-published-unexpectedly"
			if want == 1 {
				key = "will-published-twice"
			}
		}
		fail(key, fmt.Sprintf("will handed to the backend %d time(s), expected %d (setup succeeded=%t, DISCONNECT received=%t, hooks %v)", n, want, snap.SetupOK, snap.Disconnect, snap.Hooks))
	}
	if snap.SetupOK {
		r.NonTrivial(sc.String())
	}
	r.Distinct("event_traces", b.Log.Trace())
	r.Eval()
	if closedBackend {
		return
	}
	// ---- observers
	_ = helper.Send(&packet.Publish{Message: packet.Message{Topic: "will/marker", Payload: []byte("mk0")}})
	_ = helper.Send(&packet.Publish{ID: 20, Message: packet.Message{Topic: "will/marker", QOS: 1, Payload: []byte("mk1")}})
	if _, err := bh.AwaitAck(helper, packet.PUBACK, 20); err != nil {
		r.Inconclusive(fmt.Sprintf("%v: helper marker PUBACK missing (helper eof=%t)", sc, helper.EOF()))
		return
	}
	count := func(p *bh.Peer, retained bool) int {
		c := 0
		for _, g := range p.All() {
			if pub, ok := g.(*packet.Publish); ok && bytes.Equal(pub.Message.Payload, willPayload) {
				if pub.Message.Retain != retained {
					fail("will-retain-flag", fmt.Sprintf("observer %s got the will with retain=%t", p.Name, pub.Message.Retain))
				}
				if pub.Message.Topic != will.Topic {
					fail("will-altered", "will arrived on topic "+pub.Message.Topic)
				}
				c++
			}
		}
		return c
	}
	seen := func(p *bh.Peer, tags ...string) bool {
		return p.WaitCond(bh.Watchdog, func(all []packet.Generic) bool {
			left := map[string]bool{}
			for _, t := range tags {
				left[t] = true
			}
			for _, g := range all {
				if pub, ok := g.(*packet.Publish); ok {
					delete(left, string(pub.Message.Payload))
				}
			}
			return len(left) == 0
		})
	}
	if !seen(obs, "mk0", "mk1") {
		fail("observer-disturbed", "the online observer did not receive the markers (disconnected or stalled)")
		return
	}
	if c := count(obs, false); c != n {
		fail("observer-count", fmt.Sprintf("online observer received the will %d time(s), the backend was handed it %d time(s)", c, n))
	}
	// offline persistent observer resumes
	off2, _, ca, err := b.Connect("offline#1", bh.ConnectOpts{ID: "offline-observer", Clean: false, AutoAck: true, User: user, Pass: pass}, nil)
	if err == nil && ca != nil {
		if seen(off2, "mk1") {
			c := count(off2, false)
			if sc.QoS > 0 && c != n {
				fail("offline-observer-count", fmt.Sprintf("offline persistent observer received the will %d time(s) after resuming, expected %d", c, n))
			}
			if sc.QoS == 0 && c > n {
				fail("offline-observer-count", fmt.Sprintf("offline persistent observer received the QoS 0 will %d time(s), published %d", c, n))
			}
		} else {
			fail("observer-disturbed", "the offline observer did not receive the queued marker after resuming")
		}
	}
	// late subscriber: retained will
	late, _, lca, err := b.Connect("late", bh.ConnectOpts{ID: "late", Clean: true, AutoAck: true, User: user, Pass: pass}, nil)
	if err == nil && lca != nil {
		_ = late.Send(&packet.Subscribe{ID: 1, Subscriptions: []packet.Subscription{{Topic: "will/#", QOS: 2}}})
		if _, err := bh.AwaitAck(late, packet.SUBACK, 1); err == nil {
			_ = helper.Send(&packet.Publish{Message: packet.Message{Topic: "will/marker", Payload: []byte("mk2")}})
			if seen(late, "mk2") {
				c := count(late, true)
				wantLate := 0
				if sc.Retain && n > 0 {
					wantLate = 1
				}
				if c != wantLate {
					fail("late-subscriber-count", fmt.Sprintf("late subscriber received the retained will %d time(s), expected %d", c, wantLate))
				}
			}
		}
	}
	for _, p := range []*bh.Peer{obs, helper} {
		if err := p.ProtocolError(); err != nil {
			fail("malformed-from-broker", err.Error())
		}
	}
	_ = ref.Kind
}

// backpressured: an online observer's window (1) and queue (1) are full when the
// victim dies. The will is a message like any other for an online subscriber:
// the broker holds it until there is room; once the observer acknowledges, it
// receives the will exactly once.
func backpressured(r *h.Run, idx int) {
	if r.TooMany() {
		return
	}
	wq := packet.QOS(1 + idx%2)
	retain := idx%4 >= 2
	persistent := idx%3 == 0
	label := fmt.Sprintf("back-pressured observer #%d (will qos=%d retain=%t, observer clean=%t)", idx, wq, retain, !persistent)
	r.Journal("C12 %s", label)
	b := bh.NewBroker()
	b.Mon.Inner.SessionQueueSize = 1
	b.Mon.Inner.ClientInflightMessages = 1
	defer b.Shutdown()
	fail := func(key, msg string) {
		r.Violation("backpressure/"+key, label+": "+msg, map[string]interface{}{"detail": msg, "event_log_tail": b.Log.Dump(150)})
	}
	obs, _, oca, err := b.Connect("observer", bh.ConnectOpts{ID: "c12-bp-obs", Clean: !persistent}, nil)
	if err != nil || oca == nil {
		r.Inconclusive(label + ": observer could not connect")
		return
	}
	_ = obs.Send(&packet.Subscribe{ID: 1, Subscriptions: []packet.Subscription{{Topic: "will/bp", QOS: 1}, {Topic: "obs/x", QOS: 1}}})
	if _, err := bh.AwaitAck(obs, packet.SUBACK, 1); err != nil {
		r.Inconclusive(label + ": observer SUBACK")
		return
	}
	helper, _, hca, err := b.Connect("helper", bh.ConnectOpts{ID: "c12-bp-helper", Clean: true, AutoAck: true}, nil)
	if err != nil || hca == nil {
		r.Inconclusive(label + ": helper could not connect")
		return
	}
	for i := 1; i <= 2; i++ {
		_ = helper.Send(&packet.Publish{ID: packet.ID(i), Message: packet.Message{Topic: "obs/x", QOS: 1, Payload: []byte(fmt.Sprintf("fill-%d", i))}})
		if _, err := bh.AwaitAck(helper, packet.PUBACK, packet.ID(i)); err != nil {
			r.Inconclusive(label + ": helper PUBACK")
			return
		}
	}
	// the observer holds fill-1 unacknowledged (window full), fill-2 waits in its queue (queue full)
	first, err := obs.WaitFor(bh.Watchdog, func(g packet.Generic) bool { _, ok := g.(*packet.Publish); return ok })
	if err != nil {
		r.Inconclusive(label + ": observer did not get the first message")
		return
	}
	willPayload := fmt.Sprintf("will-bp-%d", idx)
	v, _, vca, err := b.Connect("victim", bh.ConnectOpts{ID: "c12-bp-victim", Clean: true, Will: &packet.Message{Topic: "will/bp", Payload: []byte(willPayload), QOS: wq, Retain: retain}}, nil)
	if err != nil || vca == nil {
		r.Inconclusive(label + ": victim could not connect")
		return
	}
	v.Close()
	time.Sleep(3 * time.Millisecond) // shaping: let the will reach the full queue
	// now the observer acknowledges everything it gets until the will arrives
	_ = obs.Send(&packet.Puback{ID: first.(*packet.Publish).ID})
	wills := 0
	for wills == 0 {
		g, err := obs.Next(bh.Watchdog)
		if err != nil {
			break
		}
		if pp, ok := g.(*packet.Publish); ok {
			if pp.Message.Topic == "will/bp" {
				wills++
				if string(pp.Message.Payload) != willPayload || pp.Message.QOS != 1 || pp.Message.Retain {
					fail("will-altered", "the will arrived as "+ref.Canon(pp))
				}
			}
			if pp.Message.QOS == 1 {
				_ = obs.Send(&packet.Puback{ID: pp.ID})
			}
		}
	}
	if wills == 0 {
		fail("will-lost-under-backpressure", "the observer's window and queue were full when the victim died; after it acknowledged everything it never received the will")
		return
	}
	if !b.WaitClosed("victim", bh.Watchdog) {
		fail("victim-not-closed", "the victim's client never closed")
		return
	}
	// nothing more: a second copy would follow promptly behind a ping
	if bh.Ping(obs) == nil {
		n := 0
		for _, g := range obs.All() {
			if pp, ok := g.(*packet.Publish); ok && pp.Message.Topic == "will/bp" && !pp.Dup {
				n++
			}
		}
		if n != 1 {
			fail("will-count", fmt.Sprintf("the observer received the will %d times", n))
		}
	}
	if ci := b.ClientOf("victim"); ci != nil {
		n := 0
		for _, m := range b.Mon.Snapshot(ci).Publishes {
			if m.Topic == "will/bp" {
				n++
			}
		}
		if n != 1 {
			fail("will-publish-count", fmt.Sprintf("Backend.Publish was called %d times with the will", n))
		}
	}
	r.Eval()
	r.NonTrivial(label)
}

// stalledVictim: a client that subscribes to its own will topic stops
// acknowledging; its window and its session queue fill up (queue size 3,
// window 2); its connection is lost. The retained will is a retained message
// like any other: a later subscriber gets it, whatever happened to the copy
// meant for the dying client itself. The live copies stay inside the documented
// overflow behaviour and are not judged.
func stalledVictim(r *h.Run, idx int) {
	if r.TooMany() {
		return
	}
	r.Journal("C12 stalled victim #%d", idx)
	b := bh.NewBroker()
	b.Mon.Inner.SessionQueueSize = 3
	b.Mon.Inner.ClientInflightMessages = 2
	defer b.Shutdown()
	fail := func(key, msg string) {
		r.Violation("stalled/"+key, fmt.Sprintf("stalled victim #%d: %s", idx, msg), map[string]interface{}{"detail": msg, "event_log_tail": b.Log.Dump(150)})
	}
	wq := packet.QOS(idx % 3)
	clean := idx%2 == 0
	willPayload := fmt.Sprintf("will-%d", idx)
	v, _, vca, err := b.Connect("victim", bh.ConnectOpts{ID: "c12-stalled", Clean: clean, Will: &packet.Message{Topic: "w/v", Payload: []byte(willPayload), QOS: wq, Retain: true}}, nil)
	if err != nil || vca == nil {
		r.Inconclusive("stalled victim could not connect")
		return
	}
	_ = v.Send(&packet.Subscribe{ID: 1, Subscriptions: []packet.Subscription{{Topic: "#", QOS: 1}}})
	if _, err := bh.AwaitAck(v, packet.SUBACK, 1); err != nil {
		r.Inconclusive("stalled victim SUBACK")
		return
	}
	pub, _, pca, err := b.Connect("pub", bh.ConnectOpts{ID: "c12-spub", Clean: true, AutoAck: true}, nil)
	if err != nil || pca == nil {
		r.Inconclusive("publisher")
		return
	}
	// window (2) + queue (3) = 5 messages are absorbed, the sixth blocks the
	// publisher's processor until the victim is closing
	for i := 1; i <= 6; i++ {
		_ = pub.Send(&packet.Publish{ID: packet.ID(i), Message: packet.Message{Topic: "x/y", QOS: 1, Payload: []byte(fmt.Sprintf("fill-%d", i))}})
	}
	if _, err := bh.AwaitAck(pub, packet.PUBACK, 5); err != nil {
		r.Inconclusive("publisher PUBACK 5")
		return
	}
	time.Sleep(2 * time.Millisecond) // shaping: let the sixth publish reach the full queue
	v.Close()
	if !b.WaitClosed("victim", bh.Watchdog) {
		fail("victim-not-closed", "the stalled victim's client never closed")
		return
	}
	if bh.Ping(pub) != nil {
		r.Inconclusive("publisher ping after the victim died")
		return
	}
	probe, _, qca, err := b.Connect("probe", bh.ConnectOpts{ID: "c12-sprobe", Clean: true, AutoAck: true}, nil)
	if err != nil || qca == nil {
		r.Inconclusive("probe")
		return
	}
	_ = probe.Send(&packet.Subscribe{ID: 1, Subscriptions: []packet.Subscription{{Topic: "w/#", QOS: 2}}})
	if _, err := bh.AwaitAck(probe, packet.SUBACK, 1); err != nil {
		r.Inconclusive("probe SUBACK")
		return
	}
	// fence: replays travel through the subscriber's temporary queue; a marker
	// published afterwards travels behind them
	_ = pub.Send(&packet.Publish{Message: packet.Message{Topic: "w/marker", Payload: []byte("marker")}})
	if _, err := probe.WaitFor(bh.Watchdog, func(g packet.Generic) bool {
		pp, ok := g.(*packet.Publish)
		return ok && pp.Message.Topic == "w/marker"
	}); err != nil {
		r.Inconclusive("probe marker")
		return
	}
	n := 0
	for _, g := range probe.All() {
		if pp, ok := g.(*packet.Publish); ok && pp.Message.Topic == "w/v" {
			n++
			if string(pp.Message.Payload) != willPayload || !pp.Message.Retain || pp.Message.QOS != wq {
				fail("will-altered", fmt.Sprintf("retained will replayed as %s", ref.Canon(pp)))
			}
		}
	}
	if ci := b.ClientOf("victim"); ci != nil {
		k := 0
		for _, m := range b.Mon.Snapshot(ci).Publishes {
			if m.Topic == "w/v" {
				k++
			}
		}
		if k != 1 {
			fail("will-publish-count", fmt.Sprintf("Backend.Publish was called %d times with the will of the stalled victim", k))
		}
	}
	if n != 1 {
		fail("retained-will-missing", fmt.Sprintf("a client whose own queue was full died; its retained will (qos %d) was replayed %d times to a later subscriber of w/#, expected once", wq, n))
	}
	r.Eval()
	r.NonTrivial(fmt.Sprintf("stalled:%d:%t", wq, clean))
}

func TestCheck(t *testing.T) {
	r := h.New("C12", "fault_enumeration")
	r.Rule("termination cause {DISCONNECT, DISCONNECT behind a PINGREQ from a peer that vanishes at once (buffered writes: the flush at close fails), peer EOF, corrupt frame, second CONNECT, CONNACK/SUBACK/PINGRESP from the client, oversized packet, keep-alive expiry, takeover by the same id (clean/unclean), MemoryBackend.Close, token-timeout kill, Backend.Publish/Subscribe failing, rejected authentication, failing Setup, CONNACK send failing before/after} x protocol state {idle, inbound QoS 1 done, inbound QoS 2 open, outbound delivery unacknowledged, blocked on a publish token, QoS 0 traffic flowing towards the client (keep-alive expiry, and DISCONNECT over a connection whose close takes 15 ms)} x will QoS 0-2 x retain; oracle: number of Backend.Publish calls with the will's content on behalf of the victim after its Closed() fired = 1 iff Setup succeeded and the broker did not log a received DISCONNECT, content unchanged; online, offline-persistent and late (retained) observers consistent with it. Stalled-victim part: a victim subscribed to its own retained will's topic with full window and queue dies; the will is handed to the backend once and a later subscriber gets it. Back-pressure part: an online observer with window 1 and queue 1, both full, when a victim with a QoS 1/2 will loses its connection: after the observer acknowledges it must get the will exactly once. Non-trivial = (cause,state) pairs in which the client had been accepted; distinct by scenario")
	r.Assume("DISCONNECT racing with another cause is judged by what the broker logged as received")
	r.Exhaustive()
	var list []scenario
	for _, c := range causes {
		for _, s := range states {
			for q := 0; q < 3; q++ {
				for _, ret := range []bool{false, true} {
					sc := scenario{c, s, packet.QOS(q), ret}
					if applicable(sc) {
						list = append(list, sc)
					}
				}
			}
		}
	}
	reps := r.Pick(3, 100)
	for rep := 0; rep < reps; rep++ {
		h.Parallel(len(list), 16, func(i int) { run(r, list[i]) })
	}
	r.Count("scenarios", int64(len(list)))
	nbp := r.Pick(24, 400)
	h.Parallel(nbp, 8, func(i int) { backpressured(r, i) })
	r.Count("backpressured_observer_runs", int64(nbp))
	nsv := r.Pick(12, 200)
	h.Parallel(nsv, 8, func(i int) { stalledVictim(r, i) })
	r.Count("stalled_victim_runs", int64(nsv))
	r.Sample(map[string]interface{}{"scenario": list[0].String()})
	r.Sample(map[string]interface{}{"scenario": list[len(list)/2].String()})
	h.Exit(r.Finish(50))
}
