// C17 — the service survives any failure sequence: reconnects, re-establishes
// exactly the subscription set implied by all calls, carries out offline
// commands, keeps futures across reconnects, Stop always returns and a restart
// works. Monitors: per-connection subscription set at the scripted broker vs a
// model of the API calls, fence command through the FIFO queue, future polls,
// goroutine-profile stuck detector around Start/Stop.
package c17

import (
	"fmt"
	"sort"
	"strings"
	"sync"
	"testing"
	"time"

	"github.com/256dpi/gomqtt/client"
	"github.com/256dpi/gomqtt/client/future"
	"github.com/256dpi/gomqtt/packet"

	"verif/internal/bh"
	"verif/internal/ch"
	"verif/internal/h"
	"verif/internal/stuck"
)

type call struct {
	Phase  string // before-start racing online
	Op     string // sub unsub pub
	Filter string
	QoS    packet.QOS
}

func (c call) String() string {
	switch c.Op {
	case "sub":
		return fmt.Sprintf("%s:subscribe(%s,q%d)", c.Phase, c.Filter, c.QoS)
	case "unsub":
		return fmt.Sprintf("%s:unsubscribe(%s)", c.Phase, c.Filter)
	}
	return fmt.Sprintf("%s:publish(q%d)", c.Phase, c.QoS)
}

type scenario struct {
	Schedule []string // failure per dial attempt; afterwards healthy
	DropK    int      // for drop-after-k
	Calls    []call
	Workers  int
	Stop     bool // Stop(true) vs Stop(false)
}

func (s scenario) String() string {
	return fmt.Sprintf("schedule=%v k=%d calls=%v workers=%d stop(clear=%t)", s.Schedule, s.DropK, s.Calls, s.Workers, s.Stop)
}

var failures = []string{"dial-refused", "connect-unsendable", "no-connack", "connack-refused", "drop-after-k", "suback-failure", "drop-during-resubscribe"}

type fut struct {
	c   call
	f   client.GenericFuture
	tag string
}

func resolved(f client.GenericFuture) bool {
	for i := 0; i < 3; i++ {
		if f.Wait(25*time.Millisecond) != future.ErrTimeout {
			return true
		}
	}
	return false
}

func run(r *h.Run, idx int, sc scenario) {
	if r.TooMany() {
		return
	}
	r.Journal("C17 #%d %v", idx, sc)
	srv := ch.NewServer()
	fail := func(key, msg string) {
		r.Violation(key, fmt.Sprintf("#%d %v: %s", idx, sc, msg), map[string]interface{}{"scenario": sc.String(), "detail": msg, "event_log_tail": srv.Log.Dump(160)})
	}
	kindOf := func(n int) string {
		if n-1 < len(sc.Schedule) {
			return sc.Schedule[n-1]
		}
		return "healthy"
	}
	var smu sync.Mutex
	sets := map[int]map[string]packet.QOS{} // dial number -> broker-side subscription set of that connection
	acceptedBefore := false
	srv.OnDial = func(n int) error {
		if kindOf(n) == "dial-refused" {
			return ch.ErrRefused
		}
		return nil
	}
	srv.Prep = func(c *ch.Conn) {
		n := srv.Dials()
		kind := kindOf(n)
		smu.Lock()
		sets[n] = map[string]packet.QOS{}
		set := sets[n]
		smu.Unlock()
		c.Peer.Name = fmt.Sprintf("srv#%d", n)
		c.FC.Name = fmt.Sprintf("cli#%d", n)
		if kind == "connect-unsendable" {
			c.FC.AddFault(bh.Fault{Dir: "send", K: 1, When: "before"})
		}
		recvd := 0
		// every other scenario: once a connection had been accepted the scripted
		// broker reports "session present" (it still keeps no subscription from an
		// earlier connection: the SUBSCRIBE may have been lost with it)
		smu.Lock()
		sp := idx%2 == 1 && acceptedBefore
		smu.Unlock()
		c.Peer.AutoReply = ch.Broker(sp, func(in packet.Generic, def []packet.Generic) []packet.Generic {
			recvd++
			if _, ok := in.(*packet.Connect); ok && kind != "no-connack" && kind != "connack-refused" {
				smu.Lock()
				acceptedBefore = true
				smu.Unlock()
			}
			switch kind {
			case "no-connack":
				return nil
			case "connack-refused":
				if _, ok := in.(*packet.Connect); ok {
					return []packet.Generic{&packet.Connack{ReturnCode: packet.ServerUnavailable}}
				}
			case "drop-after-k":
				if recvd > sc.DropK {
					c.Peer.Close()
					return nil
				}
			case "suback-failure":
				if s, ok := in.(*packet.Subscribe); ok {
					codes := make([]packet.QOS, len(s.Subscriptions))
					for i := range codes {
						codes[i] = packet.QOSFailure
					}
					return []packet.Generic{&packet.Suback{ID: s.ID, ReturnCodes: codes}}
				}
			case "drop-during-resubscribe":
				if _, ok := in.(*packet.Subscribe); ok {
					c.Peer.Close()
					return nil
				}
				if recvd > 6 { // no subscription existed yet: end this connection anyway
					c.Peer.Close()
					return nil
				}
			}
			smu.Lock()
			switch v := in.(type) {
			case *packet.Subscribe:
				for _, s := range v.Subscriptions {
					set[s.Topic] = s.QOS
				}
			case *packet.Unsubscribe:
				for _, t := range v.Topics {
					delete(set, t)
				}
			}
			smu.Unlock()
			return def
		})
	}
	s := client.NewService(400)
	s.Session = ch.NewSession(srv.Log)
	s.MinReconnectDelay, s.MaxReconnectDelay = time.Millisecond, 4*time.Millisecond
	s.ConnectTimeout, s.DisconnectTimeout, s.ResubscribeTimeout = 40*time.Millisecond, 40*time.Millisecond, 40*time.Millisecond
	s.QueueTimeout = 5 * time.Second
	var online, offline int
	var omu sync.Mutex
	s.OnlineCallback = func(bool) { omu.Lock(); online++; omu.Unlock() }
	s.OfflineCallback = func() { omu.Lock(); offline++; omu.Unlock() }
	cfg := ch.Config(srv, "c17-service", false)

	var fmu sync.Mutex
	var futs []*fut
	expected := map[string]packet.QOS{}
	tagN := 0
	issue := func(c call) {
		fmu.Lock()
		tagN++
		tag := fmt.Sprintf("p%d", tagN)
		switch c.Op {
		case "sub":
			expected[c.Filter] = c.QoS
		case "unsub":
			delete(expected, c.Filter)
		}
		fmu.Unlock()
		ft := &fut{c: c, tag: tag}
		switch c.Op {
		case "sub":
			ft.f = s.Subscribe(c.Filter, c.QoS)
		case "unsub":
			ft.f = s.Unsubscribe(c.Filter)
		case "pub":
			ft.f = s.Publish("data/"+tag, []byte(tag), c.QoS, false)
		}
		fmu.Lock()
		futs = append(futs, ft)
		fmu.Unlock()
	}
	guard := func(what string, d time.Duration, f func()) bool {
		done := make(chan struct{})
		go func() { f(); close(done) }()
		select {
		case <-done:
			return true
		case <-time.After(d):
			confirmed, stacks := stuck.Confirm(time.Second, srv.Log.Len, "github.com/256dpi/gomqtt/client.")
			if confirmed {
				fail("hang/"+strings.Fields(what)[0], what+" did not return; parked: "+stacks[0])
			} else {
				r.Inconclusive(fmt.Sprintf("#%d %s slow, no confirmed stuck state", idx, what))
			}
			return false
		}
	}
	byPhase := func(p string) []call {
		var out []call
		for _, c := range sc.Calls {
			if c.Phase == p {
				out = append(out, c)
			}
		}
		return out
	}
	// ---- offline commands, Start, commands racing with the failure schedule
	for _, c := range byPhase("before-start") {
		issue(c)
	}
	if !s.Start(cfg) {
		fail("start-refused", "Start returned false on a fresh service")
		return
	}
	racing := byPhase("racing")
	var wg sync.WaitGroup
	workers := sc.Workers
	if workers < 1 {
		workers = 1
	}
	for w := 0; w < workers; w++ {
		wg.Add(1)
		go func(w int) {
			defer wg.Done()
			for i, c := range racing {
				if i%workers != w {
					continue
				}
				if workers > 1 {
					c.Filter = fmt.Sprintf("%s/w%d", c.Filter, w) // each worker owns its filters: call order per filter is defined
				}
				issue(c)
				time.Sleep(time.Duration(300+i*137%900) * time.Microsecond)
			}
		}(w)
	}
	wg.Wait()
	// ---- the schedule ends; the service must come online and carry out everything (fence command)
	fence := func(tag string) bool {
		var err error
		// a command taken off the queue in the instant its client dies is cancelled
		// (the caller is told); the fence is then simply issued again
		for try := 0; try < 200; try++ {
			f := s.Publish("fence/"+tag, []byte(tag), 1, false)
			err = f.Wait(bh.Watchdog)
			if err == nil {
				return true
			}
			if err != future.ErrCanceled {
				break
			}
			r.Count("fence_commands_cancelled_and_reissued", 1)
		}
		confirmed, stacks := stuck.Confirm(time.Second, srv.Log.Len, "github.com/256dpi/gomqtt/client.")
		if confirmed {
			fail("service-never-recovers", fmt.Sprintf("after the failure schedule ended (%d dials so far) the fence command was not carried out within the watchdog (%v); parked: %s", srv.Dials(), err, stacks[0]))
		} else if err == future.ErrCanceled {
			fail("fence-cancelled", "200 fence commands in a row were cancelled")
		} else {
			r.Inconclusive(fmt.Sprintf("#%d fence not completed, service still busy (dials=%d)", idx, srv.Dials()))
		}
		return false
	}
	if !fence("a") {
		guard("Stop(true) after a failed fence", 10*time.Second, func() { s.Stop(true) })
		return
	}
	for _, c := range byPhase("online") {
		issue(c)
	}
	if !fence("b") {
		guard("Stop(true) after a failed fence", 10*time.Second, func() { s.Stop(true) })
		return
	}
	// ---- at rest: the current connection's subscription set = the set implied by all calls
	// The fence can be completed through a resumed session a moment before the
	// resubscription of that connection is processed, so the comparison waits
	// (bounded) for the set to settle; the verdict is about the settled state.
	check := func(when string) bool {
		var got, want map[string]packet.QOS
		var n int
		for try := 0; try < 300; try++ {
			n = srv.Dials()
			smu.Lock()
			got = map[string]packet.QOS{}
			for k, v := range sets[n] {
				got[k] = v
			}
			smu.Unlock()
			fmu.Lock()
			want = map[string]packet.QOS{}
			for k, v := range expected {
				want[k] = v
			}
			fmu.Unlock()
			if render(got) == render(want) {
				return true
			}
			time.Sleep(5 * time.Millisecond)
		}
		key := "subscription-set"
		if len(got) < len(want) {
			key = "subscription-missing"
		} else if len(got) > len(want) {
			key = "subscription-resurrected"
		}
		fail(key, fmt.Sprintf("%s (connection #%d): the broker holds subscriptions %s, the calls made so far imply %s", when, n, render(got), render(want)))
		return false
	}
	if !check("at rest after the failure schedule") {
		guard("Stop(true)", 10*time.Second, func() { s.Stop(true) })
		return
	}
	// publish futures issued so far complete through the resumed session
	fmu.Lock()
	fl := append([]*fut(nil), futs...)
	fmu.Unlock()
	for _, ft := range fl {
		if ft.c.Op == "pub" && ft.c.QoS > 0 {
			err := ft.f.Wait(bh.Watchdog)
			if err == future.ErrCanceled && !transmitted(srv, ft.tag) {
				// the command was taken off the queue while its client was dying: the
				// dispatcher cancelled it and told the caller
				r.Count("commands_cancelled_at_dispatch", 1)
				continue
			}
			if err != nil {
				fail("future-not-completed", fmt.Sprintf("the future of %v (%s) ended with %v although the service is online again and everything was acknowledged", ft.c, ft.tag, err))
			}
		}
	}
	// one more drop while at rest: the whole set must come back
	if n := srv.Dials(); n > 0 {
		if c := srv.Conns(); len(c) > 0 {
			c[len(c)-1].Peer.Close()
		}
		if fence("c") {
			if srv.Dials() > n {
				check("after one more connection loss at rest")
			}
		} else {
			guard("Stop(true)", 10*time.Second, func() { s.Stop(true) })
			return
		}
	}
	// ---- Stop returns, futures are resolved when asked to, restart works
	pend := s.Publish("late/x", []byte("late"), 1, false)
	if !guard(fmt.Sprintf("Stop(%t)", sc.Stop), 10*time.Second, func() {
		if !s.Stop(sc.Stop) {
			fail("stop-refused", "Stop returned false on a started service")
		}
	}) {
		return
	}
	if sc.Stop {
		fmu.Lock()
		fl = append([]*fut(nil), futs...)
		fmu.Unlock()
		for _, ft := range fl {
			if !resolved(ft.f) {
				fail("future-unresolved-after-stop", fmt.Sprintf("Stop(true) returned and the future of %v is still unresolved", ft.c))
				break
			}
		}
		if !resolved(pend) {
			fail("future-unresolved-after-stop", "Stop(true) returned and the future of a publish issued just before is still unresolved")
		}
	}
	if s.Stop(false) {
		fail("stop-twice", "a second Stop returned true")
	}
	// restart
	d0 := srv.Dials()
	if !s.Start(cfg) {
		fail("restart-refused", "Start after Stop returned false")
		return
	}
	if fence("restart") {
		if srv.Dials() <= d0 {
			fail("restart-no-connection", "the restarted service completed a command without a new connection")
		}
		check("after restart")
	}
	guard("Stop(true) at the end", 10*time.Second, func() { s.Stop(true) })
	subs := 0
	for _, c := range sc.Calls {
		if c.Op == "sub" {
			subs++
		}
	}
	if len(sc.Schedule) > 0 && subs > 0 {
		r.NonTrivial(sc.String())
	}
	r.Distinct("event_traces", srv.Log.Trace())
	r.Eval()
	if idx < 3 {
		r.Sample(map[string]interface{}{"scenario": sc.String(), "dials": srv.Dials()})
	}
}

// transmitted: the first attempt to hand a PUBLISH with this payload to a
// connection succeeded (i.e. the dispatcher's client call did not fail).
func transmitted(srv *ch.Server, tag string) bool {
	ev := srv.Log.Events()
	for i, e := range ev {
		if e.Kind != "csend" {
			continue
		}
		p, ok := e.Pkt.(*packet.Publish)
		if !ok || string(p.Message.Payload) != tag {
			continue
		}
		for _, f := range ev[i+1:] {
			if f.Who == e.Who && f.Kind == "csend-error" {
				if q, ok := f.Pkt.(*packet.Publish); ok && string(q.Message.Payload) == tag {
					return false
				}
			}
		}
		return true
	}
	return false
}

// startStopRace: Start and Stop are called from several goroutines while a
// publish is unacknowledged (Stop(true) waits for it up to the disconnect
// timeout). Afterwards the service must be in one consistent state: never more
// than one connection open at a time, and if it is running, futures survive a
// reconnect as usual.
func startStopRace(r *h.Run, idx int) {
	rng := r.Rand(fmt.Sprintf("c17-race-%d", idx))
	r.Journal("C17 start/stop race #%d", idx)
	srv := ch.NewServer()
	var mu sync.Mutex
	open, maxOpen := 0, 0
	withhold := true
	srv.Prep = func(c *ch.Conn) {
		mu.Lock()
		open++
		if open > maxOpen {
			maxOpen = open
		}
		mu.Unlock()
		c.CEnd.OnClose = func() { mu.Lock(); open--; mu.Unlock() }
		c.Peer.AutoReply = ch.Broker(false, func(in packet.Generic, def []packet.Generic) []packet.Generic {
			if p, ok := in.(*packet.Publish); ok && strings.HasPrefix(p.Message.Topic, "hold/") {
				mu.Lock()
				w := withhold
				mu.Unlock()
				if w {
					return nil
				}
			}
			return def
		})
	}
	fail := func(key, msg string) {
		r.Violation("race/"+key, fmt.Sprintf("start/stop race #%d: %s", idx, msg), map[string]interface{}{"detail": msg, "event_log_tail": srv.Log.Dump(120)})
	}
	s := client.NewService(100)
	s.Session = ch.NewSession(srv.Log)
	s.MinReconnectDelay, s.MaxReconnectDelay = time.Millisecond, 3*time.Millisecond
	s.ConnectTimeout, s.ResubscribeTimeout = 40*time.Millisecond, 40*time.Millisecond
	s.DisconnectTimeout = time.Duration(20+rng.Intn(40)) * time.Millisecond
	cfg := ch.Config(srv, "c17-race", false)
	s.Start(cfg)
	if s.Publish("ok/x", []byte("warm"), 1, false).Wait(bh.Watchdog) != nil {
		r.Inconclusive("race: warm-up publish")
		s.Stop(true)
		return
	}
	// an unacknowledged publish keeps Stop(true) waiting
	s.Publish("hold/x", []byte("held"), 1, false)
	time.Sleep(2 * time.Millisecond)
	var wg sync.WaitGroup
	nops := 2 + rng.Intn(4)
	ops := make([]int, nops)
	delays := make([]time.Duration, nops)
	for i := range ops {
		ops[i] = rng.Intn(3)
		delays[i] = time.Duration(rng.Intn(8000)) * time.Microsecond
	}
	ops[0] = 0 // always one Stop(true) first
	delays[0] = 0
	done := make(chan struct{})
	for i := range ops {
		wg.Add(1)
		go func(i int) {
			defer wg.Done()
			time.Sleep(delays[i])
			switch ops[i] {
			case 0:
				s.Stop(true)
			case 1:
				s.Start(cfg)
			default:
				s.Stop(false)
			}
		}(i)
	}
	go func() { wg.Wait(); close(done) }()
	select {
	case <-done:
	case <-time.After(15 * time.Second):
		confirmed, stacks := stuck.Confirm(time.Second, srv.Log.Len, "github.com/256dpi/gomqtt/client.")
		if confirmed {
			fail("hang", "concurrent Start/Stop calls did not all return; parked: "+stacks[0])
		} else {
			r.Inconclusive("race: Start/Stop slow")
		}
		return
	}
	mu.Lock()
	withhold = false
	mu.Unlock()
	// bring the service into the running state (Start returns false if it already runs)
	s.Start(cfg)
	var f client.GenericFuture
	for try := 0; try < 100; try++ {
		f = s.Publish("ok/y", []byte("after"), 1, false)
		if err := f.Wait(bh.Watchdog); err == nil {
			break
		} else if err != future.ErrCanceled {
			fail("not-running", fmt.Sprintf("after the race the started service does not carry out commands: %v", err))
			s.Stop(true)
			return
		}
	}
	// futures survive a reconnect: withhold the acknowledgement, drop, resume
	mu.Lock()
	withhold = true
	mu.Unlock()
	var hf client.GenericFuture
	tag := ""
	for try := 0; try < 50; try++ {
		tag = fmt.Sprintf("survive-%d", try)
		hf = s.Publish("hold/y", []byte(tag), 1, false)
		// wait until it has been handed to a connection
		ok := false
		for i := 0; i < 400 && !ok; i++ {
			for _, e := range srv.Log.Events() {
				if e.Kind == "srecv" {
					if p, is := e.Pkt.(*packet.Publish); is && string(p.Message.Payload) == tag {
						ok = true
					}
				}
			}
			if !ok {
				time.Sleep(500 * time.Microsecond)
			}
		}
		if ok {
			break
		}
		if hf.Wait(time.Millisecond) != future.ErrCanceled {
			break
		}
	}
	mu.Lock()
	withhold = false
	mu.Unlock()
	if cs := srv.Conns(); len(cs) > 0 {
		cs[len(cs)-1].Peer.Close()
	}
	if err := hf.Wait(bh.Watchdog); err != nil && transmitted(srv, tag) {
		fail("future-does-not-survive-reconnect", fmt.Sprintf("a QoS 1 publish was handed to the connection, the connection dropped, the session was resumed and the broker acknowledged the retransmission, but the future ended with %v", err))
	}
	mu.Lock()
	mo := maxOpen
	mu.Unlock()
	if mo > 1 {
		fail("two-connections", fmt.Sprintf("the service had %d connections open at the same time", mo))
	}
	guardDone := make(chan struct{})
	go func() { s.Stop(true); close(guardDone) }()
	select {
	case <-guardDone:
	case <-time.After(10 * time.Second):
		fail("hang", "final Stop(true) did not return")
	}
	r.Eval()
	r.NonTrivial(fmt.Sprintf("race:%d:%v", idx, ops))
}

// offlineOrder: commands issued while the broker is unreachable are carried out
// once online, in the order issued. One caller issues numbered commands; the
// command queue is small (so the caller keeps running into a full queue) or
// large; the first dials are refused. Nothing is cut afterwards, so every
// command must reach the scripted broker, in order.
func offlineOrder(r *h.Run, idx int) {
	if r.TooMany() {
		return
	}
	rng := r.Rand(fmt.Sprintf("c17-order-%d", idx))
	total := 20 + rng.Intn(40)
	qsize := []int{3, 4, 8, 100}[idx%4]
	refuse := 1 + idx%3
	r.Journal("C17 offline order #%d commands=%d queue=%d refused-dials=%d", idx, total, qsize, refuse)
	srv := ch.NewServer()
	srv.OnDial = func(n int) error {
		if n <= refuse {
			return ch.ErrRefused
		}
		return nil
	}
	srv.Prep = func(c *ch.Conn) { c.Peer.AutoReply = ch.Broker(false, nil) }
	s := client.NewService(qsize)
	s.MinReconnectDelay, s.MaxReconnectDelay = time.Millisecond, 3*time.Millisecond
	s.QueueTimeout = 30 * time.Second
	s.Start(ch.Config(srv, "c17-order", true))
	issued := make(chan struct{})
	go func() {
		defer close(issued)
		for i := 0; i < total; i++ {
			tag := fmt.Sprintf("ord/%04d", i)
			switch rng.Intn(3) {
			case 0:
				s.Publish(tag, []byte("x"), packet.QOS(i%3), false)
			case 1:
				s.Subscribe(tag, packet.QOS(i%3))
			default:
				s.Unsubscribe(tag)
			}
		}
	}()
	select {
	case <-issued:
	case <-time.After(bh.Watchdog):
		r.Inconclusive(fmt.Sprintf("offline order #%d: the caller was still blocked on the command queue after the watchdog", idx))
		go s.Stop(true)
		return
	}
	conn := srv.WaitConn(1, bh.Watchdog)
	if conn == nil {
		r.Inconclusive(fmt.Sprintf("offline order #%d: the service never got a connection", idx))
		go s.Stop(true)
		return
	}
	numOf := func(g packet.Generic) int {
		t := ""
		switch v := g.(type) {
		case *packet.Publish:
			if v.Dup {
				return -1 // a retransmission is not the execution of a command
			}
			t = v.Message.Topic
		case *packet.Subscribe:
			if len(v.Subscriptions) == 1 {
				t = v.Subscriptions[0].Topic
			}
		case *packet.Unsubscribe:
			if len(v.Topics) == 1 {
				t = v.Topics[0]
			}
		}
		if !strings.HasPrefix(t, "ord/") {
			return -1
		}
		var k int
		fmt.Sscanf(strings.TrimPrefix(t, "ord/"), "%d", &k)
		return k
	}
	ok := conn.Peer.WaitCond(bh.Watchdog, func(all []packet.Generic) bool {
		n := 0
		for _, g := range all {
			if numOf(g) >= 0 {
				n++
			}
		}
		return n >= total
	})
	var order []int
	for _, g := range conn.Peer.All() {
		if k := numOf(g); k >= 0 {
			order = append(order, k)
		}
	}
	if !ok {
		if len(srv.Conns()) > 1 {
			r.Inconclusive(fmt.Sprintf("offline order #%d: the service reconnected although nothing cut the connection", idx))
		} else {
			r.Violation("offline-commands-not-carried-out", fmt.Sprintf("offline order #%d: %d commands were issued while the broker was unreachable (queue %d), %d reached it once online: %v", idx, total, qsize, len(order), order), map[string]interface{}{"arrival_order": order, "event_log_tail": srv.Log.Dump(80)})
		}
	} else {
		for i := 1; i < len(order); i++ {
			if order[i] <= order[i-1] {
				r.Violation("offline-commands-out-of-order", fmt.Sprintf("offline order #%d (queue %d, %d refused dials): command #%d was carried out after #%d; arrival order %v", idx, qsize, refuse, order[i], order[i-1], order), map[string]interface{}{"arrival_order": order, "event_log_tail": srv.Log.Dump(80)})
				break
			}
		}
	}
	stopped := make(chan struct{})
	go func() { s.Stop(true); close(stopped) }()
	select {
	case <-stopped:
	case <-time.After(bh.Watchdog):
		r.Inconclusive("offline order: Stop did not return")
	}
	r.Eval()
	r.NonTrivial(fmt.Sprintf("order:%d:%d", qsize, refuse))
}

// stopWhileOffline: commands are issued while the broker is unreachable, then
// the service is stopped and asked to cancel all pending futures.
func stopWhileOffline(r *h.Run, idx int, kind string, ncmd int) {
	r.Journal("C17 stop-while-offline #%d kind=%s commands=%d", idx, kind, ncmd)
	srv := ch.NewServer()
	srv.OnDial = func(n int) error {
		if kind == "dial-refused" {
			return ch.ErrRefused
		}
		return nil
	}
	srv.Prep = func(c *ch.Conn) {
		c.Peer.AutoReply = func(packet.Generic) []packet.Generic { return nil } // silent broker: no CONNACK
	}
	s := client.NewService(100)
	s.MinReconnectDelay, s.MaxReconnectDelay = time.Millisecond, 3*time.Millisecond
	s.ConnectTimeout, s.DisconnectTimeout, s.ResubscribeTimeout = 20*time.Millisecond, 20*time.Millisecond, 20*time.Millisecond
	s.Start(ch.Config(srv, "c17-offline", false))
	var fs []client.GenericFuture
	for i := 0; i < ncmd; i++ {
		switch i % 3 {
		case 0:
			fs = append(fs, s.Publish("o/x", []byte("x"), packet.QOS(i%2+1), false))
		case 1:
			fs = append(fs, s.Subscribe("o/#", 1))
		default:
			fs = append(fs, s.Unsubscribe("o/y"))
		}
	}
	time.Sleep(time.Duration(idx%7) * time.Millisecond)
	done := make(chan struct{})
	go func() { s.Stop(true); close(done) }()
	select {
	case <-done:
	case <-time.After(10 * time.Second):
		confirmed, stacks := stuck.Confirm(time.Second, srv.Log.Len, "github.com/256dpi/gomqtt/client.")
		if confirmed {
			r.Violation("hang/Stop(true)", fmt.Sprintf("stop-while-offline (%s): Stop(true) did not return; parked: %s", kind, stacks[0]), nil)
		} else {
			r.Inconclusive("stop-while-offline: Stop slow")
		}
		return
	}
	for i, f := range fs {
		if !resolved(f) {
			r.Violation("future-unresolved-after-stop/command-still-queued", fmt.Sprintf("stop-while-offline (%s): %d commands were issued while the broker was unreachable, Stop(true) returned, and the future of command #%d is still unresolved (it was never dispatched)", kind, ncmd, i), map[string]interface{}{"kind": kind, "commands": ncmd, "event_log_tail": srv.Log.Dump(40)})
			break
		}
	}
	r.Eval()
	r.NonTrivial(fmt.Sprintf("offline-stop:%s:%d:%d", kind, ncmd, idx%7))
}

// stopDuringFailingResubscribe: the service holds a subscription, loses its
// connection, and from then on every connection is accepted but its
// resubscription fails (the broker drops the connection at the SUBSCRIBE, or
// never answers it). Stop is called in the middle of that cycle and must return.
func stopDuringFailingResubscribe(r *h.Run, idx int, mode string) {
	r.Journal("C17 stop-during-failing-resubscribe #%d mode=%s", idx, mode)
	srv := ch.NewServer()
	var mu sync.Mutex
	failed, subscribed := 0, false
	srv.Prep = func(c *ch.Conn) {
		// connections made after the first SUBACK went out are the failing ones
		mu.Lock()
		failing := subscribed
		mu.Unlock()
		c.Peer.AutoReply = ch.Broker(failing, func(in packet.Generic, def []packet.Generic) []packet.Generic {
			if _, ok := in.(*packet.Subscribe); ok {
				mu.Lock()
				if failing {
					failed++
				} else {
					subscribed = true
				}
				mu.Unlock()
				if failing {
					if mode == "drop" {
						c.Peer.Close()
					}
					return nil
				}
			}
			return def
		})
	}
	s := client.NewService(100)
	s.MinReconnectDelay, s.MaxReconnectDelay = time.Millisecond, 3*time.Millisecond
	s.ConnectTimeout, s.DisconnectTimeout, s.ResubscribeTimeout = 40*time.Millisecond, 20*time.Millisecond, 20*time.Millisecond
	s.Start(ch.Config(srv, "c17-resub", false))
	if err := s.Subscribe("o/#", 1).Wait(bh.Watchdog); err != nil {
		r.Inconclusive("stop-during-failing-resubscribe: the first subscription did not complete: " + err.Error())
		s.Stop(true)
		return
	}
	conns := srv.Conns()
	if len(conns) == 0 {
		r.Inconclusive("stop-during-failing-resubscribe: no connection")
		s.Stop(true)
		return
	}
	conns[len(conns)-1].Peer.Close()
	want := 1 + idx%3
	for i := 0; i < 5000; i++ { // bounded wait for the failing cycle to be under way
		mu.Lock()
		f := failed
		mu.Unlock()
		if f >= want {
			break
		}
		time.Sleep(time.Millisecond)
	}
	mu.Lock()
	f := failed
	mu.Unlock()
	if f < want {
		r.Inconclusive(fmt.Sprintf("stop-during-failing-resubscribe: only %d failed resubscriptions were seen", f))
		s.Stop(true)
		return
	}
	time.Sleep(time.Duration(idx%5) * time.Millisecond)
	done := make(chan struct{})
	go func() { s.Stop(true); close(done) }()
	select {
	case <-done:
	case <-time.After(10 * time.Second):
		// the service may keep reconnecting meanwhile (events are still logged):
		// what is confirmed is that the Stop call itself stays parked
		confirmed, stacks := stuck.Confirm(time.Second, func() int { return 0 }, "client.(*Service).Stop")
		if confirmed {
			mu.Lock()
			f = failed
			mu.Unlock()
			r.Violation("hang/Stop(true)/failing-resubscribe", fmt.Sprintf("stop-during-failing-resubscribe (%s): Stop(true) did not return while every resubscription fails (%d failed so far); parked: %s", mode, f, stacks[0]), map[string]interface{}{"mode": mode, "event_log_tail": srv.Log.Dump(40)})
		} else {
			r.Inconclusive("stop-during-failing-resubscribe: Stop slow")
		}
		return
	}
	r.Eval()
	r.NonTrivial(fmt.Sprintf("failing-resubscribe-stop:%s:%d:%d", mode, want, idx%5))
}

func render(m map[string]packet.QOS) string {
	var ks []string
	for k, v := range m {
		ks = append(ks, fmt.Sprintf("%s=q%d", k, v))
	}
	sort.Strings(ks)
	return fmt.Sprint(ks)
}

func schedules(depth int) [][]string {
	var out [][]string
	var rec func(cur []string)
	rec = func(cur []string) {
		out = append(out, append([]string(nil), cur...))
		if len(cur) == depth {
			return
		}
		for _, f := range failures {
			rec(append(cur, f))
		}
	}
	rec(nil)
	return out
}

func TestCheck(t *testing.T) {
	r := h.New("C17", "fault_enumeration")
	depth := r.Pick(2, 3)
	r.Rule(fmt.Sprintf("client.Service against a scripted broker that fails on command: every failure schedule of length <= %d (sampled length up to 5 in thorough) over {dial refused, CONNECT unsendable, no CONNACK, CONNACK refused, drop after k packets, SUBACK failure code, drop during resubscribe} followed by healthy connections, combined with API call sequences (subscribe/unsubscribe over 3 filters with changing QoS, publishes) issued before Start, racing with the failures from 1-4 goroutines and after coming online; a fence publish through the FIFO command queue marks rest; then the scripted broker's subscription set of the current connection must equal the set implied by all calls, QoS>0 publish futures must have completed, one more connection loss at rest must restore the same set, Stop(true|false) must return (also when called while every connection is accepted and every resubscription fails, by a drop or by silence), Stop(true) must leave no future unresolved, a second Stop returns false, Start again must reconnect and work. Non-trivial = schedules with >= 1 failure and >= 1 subscription; distinct by scenario", depth))
	r.Assume("subscribe/unsubscribe futures are not required to complete across a reconnect (SUBSCRIBE is not retransmitted); service timeouts are 40 ms, the healthy scripted broker answers at once")
	rng := r.Rand("c17")
	filters := []string{"f/1", "f/2", "f/+"}
	mkCalls := func() []call {
		var cs []call
		for _, ph := range []string{"before-start", "racing", "online"} {
			for k, n := 0, rng.Intn(5); k < n; k++ {
				switch rng.Intn(5) {
				case 0, 1:
					cs = append(cs, call{ph, "sub", filters[rng.Intn(3)], packet.QOS(rng.Intn(3))})
				case 2:
					cs = append(cs, call{ph, "unsub", filters[rng.Intn(3)], 0})
				default:
					cs = append(cs, call{ph, "pub", "", packet.QOS(rng.Intn(3))})
				}
			}
		}
		return cs
	}
	var list []scenario
	for _, sch := range schedules(depth) {
		reps := 1
		if len(sch) > 0 {
			reps = r.Pick(4, 30)
		}
		for k := 0; k < reps; k++ {
			list = append(list, scenario{Schedule: sch, DropK: 1 + rng.Intn(5), Calls: mkCalls(), Workers: 1 + rng.Intn(4), Stop: rng.Intn(3) != 0})
		}
	}
	if !r.Quick() {
		for k := 0; k < 1500; k++ {
			var sch []string
			for i, n := 0, 3+rng.Intn(3); i < n; i++ {
				sch = append(sch, failures[rng.Intn(len(failures))])
			}
			list = append(list, scenario{Schedule: sch, DropK: 1 + rng.Intn(6), Calls: mkCalls(), Workers: 1 + rng.Intn(4), Stop: rng.Intn(3) != 0})
		}
	}
	// many commands racing with repeated drops (the window between a client dying and the dispatcher noticing)
	for k := 0; k < r.Pick(150, 6000); k++ {
		var cs []call
		for i := 0; i < 12+rng.Intn(20); i++ {
			if rng.Intn(3) == 0 {
				cs = append(cs, call{"racing", "unsub", filters[rng.Intn(3)], 0})
			} else {
				cs = append(cs, call{"racing", "sub", filters[rng.Intn(3)], packet.QOS(rng.Intn(3))})
			}
		}
		var sch []string
		for i := 0; i < 4+rng.Intn(6); i++ {
			sch = append(sch, "drop-after-k")
		}
		list = append(list, scenario{Schedule: sch, DropK: 1 + rng.Intn(4), Calls: cs, Workers: 1 + rng.Intn(3), Stop: true})
	}
	r.Count("scenarios", int64(len(list)))
	h.Parallel(len(list), 16, func(i int) { run(r, i, list[i]) })
	nOrd := r.Pick(40, 1500)
	h.Parallel(nOrd, 8, func(i int) { offlineOrder(r, i) })
	r.Count("offline_order_runs", int64(nOrd))
	nOff := r.Pick(40, 2000)
	h.Parallel(nOff, 16, func(i int) {
		stopWhileOffline(r, i, []string{"dial-refused", "no-connack"}[i%2], 1+i%9)
	})
	r.Count("stop_while_offline_runs", int64(nOff))
	nRes := r.Pick(30, 1000)
	h.Parallel(nRes, 8, func(i int) { stopDuringFailingResubscribe(r, i, []string{"drop", "silent"}[i%2]) })
	r.Count("stop_during_failing_resubscribe_runs", int64(nRes))
	nRace := r.Pick(120, 6000)
	h.Parallel(nRace, 16, func(i int) { startStopRace(r, i) })
	r.Count("start_stop_race_runs", int64(nRace))
	h.Exit(r.Finish(30))
}
