// C11 — retained set = last non-empty retained publish per topic, replayed on
// subscribe. Monitor: reference retained-map model, probe subscribers behind
// marker fences, live observers.
package c11

import (
	"fmt"
	"strings"
	"sync"
	"testing"
	"time"

	"github.com/256dpi/gomqtt/packet"

	"verif/internal/bh"
	"verif/internal/h"
	"verif/internal/ref"
)

func seqs(alpha []string, maxDepth int) []string {
	var out []string
	var rec func(prefix []string)
	rec = func(prefix []string) {
		out = append(out, strings.Join(prefix, "/"))
		if len(prefix) == maxDepth {
			return
		}
		for _, a := range alpha {
			rec(append(append([]string{}, prefix...), a))
		}
	}
	for _, a := range alpha {
		rec([]string{a})
	}
	return out
}

// filterSet is C04's depth<=3 filter universe.
func filterSet() []string {
	var fs []string
	for _, f := range seqs([]string{"a", "b", "", "+"}, 3) {
		if f != "" {
			fs = append(fs, f)
		}
	}
	fs = append(fs, "#")
	for _, p := range seqs([]string{"a", "b", "", "+"}, 2) {
		fs = append(fs, p+"/#")
	}
	return fs
}

var topics = []string{"a", "a/b", "b", "a/b/a", "/a", "a/", "b/b"}

type hist struct {
	r     *h.Run
	idx   int
	cl    *bh.Cluster
	model *ref.BrokerModel
	steps []string
	nsub  int
	nt    bool
	// offline persistent subscriber
	offSubs    map[string]packet.QOS
	offExpect  []ref.Expect
	offOffline bool
}

func (x *hist) fail(key, msg string) {
	x.r.Violation(key, fmt.Sprintf("history #%d after %v: %s", x.idx, x.steps, msg), map[string]interface{}{"steps": x.steps, "detail": msg, "retained_model": fmt.Sprint(x.model.Retained), "event_log_tail": x.cl.B.Log.Dump(60)})
}

// settle fences and compares every joined peer with its expectations.
func (x *hist) settle(expect map[string][]ref.Expect) bool {
	if err := x.cl.Fence(); err != nil {
		x.fail("fence", err.Error())
		return false
	}
	for who := range x.cl.Peers {
		got := x.cl.Drain(who)
		if key, msg := ref.CompareDeliveries(got, expect[who]); key != "" {
			x.fail(key, fmt.Sprintf("client %s received %v, model expects %v: %s", who, ref.DescribeGot(got), ref.DescribeExp(expect[who]), msg))
			return false
		}
		if err := x.cl.Peers[who].ProtocolError(); err != nil {
			x.fail("malformed-from-broker", err.Error())
			return false
		}
	}
	return true
}

func (x *hist) publish(who string, msg packet.Message) bool {
	p := x.cl.Peers[who]
	pub := &packet.Publish{Message: msg}
	var err error
	switch msg.QOS {
	case 0:
		_ = p.Send(pub)
		err = bh.Ping(p)
	case 1:
		pub.ID = x.cl.ID(who)
		_ = p.Send(pub)
		_, err = bh.AwaitAck(p, packet.PUBACK, pub.ID)
	case 2:
		pub.ID = x.cl.ID(who)
		_ = p.Send(pub)
		if _, err = bh.AwaitAck(p, packet.PUBREC, pub.ID); err == nil {
			_ = p.Send(&packet.Pubrel{ID: pub.ID})
			_, err = bh.AwaitAck(p, packet.PUBCOMP, pub.ID)
		}
	}
	if err != nil {
		x.fail("publish-not-acknowledged", err.Error())
		return false
	}
	return x.applyPublish(msg)
}

func (x *hist) applyPublish(msg packet.Message) bool {
	expect := map[string][]ref.Expect{}
	for who, e := range x.model.Publish(msg) {
		expect[who] = append(expect[who], e)
	}
	if x.offOffline {
		// queued for the offline persistent subscriber (live copy, flag cleared)
		allowed := map[packet.QOS]bool{}
		for f, fq := range x.offSubs {
			if ref.Matches(f, msg.Topic) {
				q := msg.QOS
				if fq < q {
					q = fq
				}
				allowed[q] = true
			}
		}
		if len(allowed) > 0 {
			min := 1
			if msg.QOS == 0 {
				min = 0
				allowed[0] = true
			}
			x.offExpect = append(x.offExpect, ref.Expect{Topic: msg.Topic, Payload: string(msg.Payload), QOS: allowed, Retain: false, Min: min, Max: 1})
		}
	}
	return x.settle(expect)
}

func (x *hist) subscribe(who string, subs []packet.Subscription) bool {
	p := x.cl.Peers[who]
	id := x.cl.ID(who)
	_ = p.Send(&packet.Subscribe{ID: id, Subscriptions: subs})
	if _, err := bh.AwaitAck(p, packet.SUBACK, id); err != nil {
		x.fail("no-suback", err.Error())
		return false
	}
	exp := x.model.Subscribe(who, subs)
	matched, unmatched := 0, 0
	for t := range x.model.Retained {
		m := false
		for _, s := range subs {
			if ref.Matches(s.Topic, t) {
				m = true
			}
		}
		if m {
			matched++
		} else {
			unmatched++
		}
	}
	if len(x.model.Retained) >= 2 && unmatched >= 1 {
		x.nt = true
	}
	x.nsub++
	return x.settle(map[string][]ref.Expect{who: exp})
}

func run(r *h.Run, idx int, fs []string) {
	if r.TooMany() {
		return
	}
	rng := r.Rand(fmt.Sprintf("c11-%d", idx))
	cl, err := bh.NewCluster()
	if err != nil {
		r.Inconclusive(err.Error())
		return
	}
	defer cl.Shutdown()
	x := &hist{r: r, idx: idx, cl: cl, model: ref.NewBrokerModel()}
	join := func(name string, clean bool, will *packet.Message) bool {
		if _, _, err := cl.Join(name, clean, will); err != nil {
			x.fail("join-failed", err.Error())
			return false
		}
		x.model.Connect(name, true)
		x.model.Subscribe(name, []packet.Subscription{{Topic: bh.MarkerTopic, QOS: 1}})
		return true
	}
	if !join("pub1", true, nil) || !join("pub2", true, nil) || !join("live", true, nil) {
		return
	}
	x.steps = append(x.steps, "live:subscribe(# q2)")
	if !x.subscribe("live", []packet.Subscription{{Topic: "#", QOS: 2}}) {
		return
	}
	msgN, probeN, victimN := 0, 0, 0
	// earlier messages of this history, re-sent verbatim now and then: a retained
	// publish (or will) that is byte-identical to what is already retained must be
	// treated like any other (live copy with the flag cleared, replay afterwards)
	var sent []packet.Message
	nsteps := 14 + rng.Intn(14)
	for s := 0; s < nsteps; s++ {
		r.Journal("C11 history #%d steps so far %v", idx, x.steps)
		switch k := rng.Intn(20); {
		case k < 9: // publish
			msgN++
			msg := packet.Message{Topic: topics[rng.Intn(len(topics))], QOS: packet.QOS(rng.Intn(3)), Retain: rng.Intn(4) != 0, Payload: []byte(fmt.Sprintf("r%d-%d", idx, msgN))}
			if msg.Retain && rng.Intn(4) == 0 {
				msg.Payload = nil // clears
			}
			if len(sent) > 0 && rng.Intn(4) == 0 {
				msg = sent[rng.Intn(len(sent))] // verbatim repetition (topic, QoS, payload, flag)
				if rng.Intn(3) == 0 {
					msg.QOS = packet.QOS(rng.Intn(3))
				}
			}
			sent = append(sent, msg)
			who := []string{"pub1", "pub2"}[rng.Intn(2)]
			x.steps = append(x.steps, fmt.Sprintf("%s:publish(%q q%d retain=%t payload=%q)", who, msg.Topic, msg.QOS, msg.Retain, msg.Payload))
			if !x.publish(who, msg) {
				return
			}
		case k < 15: // probe subscriber with 1-3 filters of the exhaustive filter set
			probeN++
			name := fmt.Sprintf("probe%d", probeN)
			if !join(name, true, nil) {
				return
			}
			var subs []packet.Subscription
			subs = append(subs, packet.Subscription{Topic: fs[(idx*7+probeN*13+s)%len(fs)], QOS: packet.QOS(rng.Intn(3))})
			for rng.Intn(3) == 0 && len(subs) < 3 {
				subs = append(subs, packet.Subscription{Topic: fs[rng.Intn(len(fs))], QOS: packet.QOS(rng.Intn(3))})
			}
			x.steps = append(x.steps, fmt.Sprintf("%s:subscribe%v", name, subs))
			if !x.subscribe(name, subs) {
				return
			}
			if rng.Intn(3) == 0 { // repeated subscription: replayed again
				x.steps = append(x.steps, fmt.Sprintf("%s:subscribe-again%v", name, subs[:1]))
				if !x.subscribe(name, subs[:1]) {
					return
				}
			}
			if rng.Intn(2) == 0 {
				// leave so that the number of live observers stays small
				p := cl.Peers[name]
				_ = p.Send(&packet.Disconnect{})
				p.WaitEOF(bh.Watchdog)
				cl.B.WaitClosed(p.Name, bh.Watchdog)
				cl.Leave(name)
				x.model.Disconnect(name, true)
				x.steps = append(x.steps, name+":disconnect")
			}
		case k < 17: // retained (or not) will of a victim whose connection is dropped
			victimN++
			name := fmt.Sprintf("victim%d", victimN)
			msgN++
			will := &packet.Message{Topic: topics[rng.Intn(len(topics))], QOS: packet.QOS(rng.Intn(3)), Retain: rng.Intn(3) != 0, Payload: []byte(fmt.Sprintf("w%d-%d", idx, msgN))}
			if will.Retain && rng.Intn(4) == 0 {
				will.Payload = nil // a retained will with an empty payload clears the topic like any publish
			}
			if len(sent) > 0 && rng.Intn(4) == 0 {
				w := sent[rng.Intn(len(sent))] // a will identical to an earlier message
				will = &w
			}
			sent = append(sent, *will)
			if !join(name, true, will) {
				return
			}
			p := cl.Peers[name]
			cl.Leave(name)
			x.model.Disconnect(name, true)
			p.Close() // network loss: no DISCONNECT
			if !cl.B.WaitClosed(p.Name, bh.Watchdog) {
				r.Inconclusive(fmt.Sprintf("history #%d: victim did not finish closing within the watchdog", idx))
				return
			}
			x.steps = append(x.steps, fmt.Sprintf("%s:dies-with-will(%q q%d retain=%t payload=%q)", name, will.Topic, will.QOS, will.Retain, will.Payload))
			if !x.applyPublish(*will) {
				return
			}
		case k < 19: // offline persistent subscriber
			if x.offSubs == nil {
				if _, _, err := cl.Join("pers", false, nil); err != nil {
					x.fail("join-failed", err.Error())
					return
				}
				x.model.Connect("pers", true)
				x.model.Subscribe("pers", []packet.Subscription{{Topic: bh.MarkerTopic, QOS: 1}})
				f := packet.Subscription{Topic: fs[rng.Intn(len(fs))], QOS: packet.QOS(1 + rng.Intn(2))}
				x.steps = append(x.steps, fmt.Sprintf("pers:subscribe[%v]", f))
				if !x.subscribe("pers", []packet.Subscription{f}) {
					return
				}
				x.offSubs = map[string]packet.QOS{bh.MarkerTopic: 1, f.Topic: f.QOS}
			} else if !x.offOffline {
				p := cl.Peers["pers"]
				_ = p.Send(&packet.Disconnect{})
				p.WaitEOF(bh.Watchdog)
				cl.B.WaitClosed(p.Name, bh.Watchdog)
				cl.Leave("pers")
				x.model.Disconnect("pers", false)
				x.offOffline = true
				x.steps = append(x.steps, "pers:disconnect(session kept)")
			} else {
				_, ca, err := cl.Join("pers", false, nil)
				if err != nil {
					x.fail("join-failed", err.Error())
					return
				}
				if !ca.SessionPresent {
					x.fail("session-present", "persistent subscriber reconnected and CONNACK says no session present")
					return
				}
				x.offOffline = false
				x.model.Clients["pers"].Connected = true
				x.steps = append(x.steps, "pers:reconnect(clean=false)")
				exp := x.offExpect
				x.offExpect = nil
				// markers published while it was offline are queued as well (QoS 1 ones)
				if !x.settleOffline("pers", exp) {
					return
				}
			}
		default: // checkpoint: a fresh probe reads the whole retained set
			probeN++
			name := fmt.Sprintf("probe%d", probeN)
			if !join(name, true, nil) {
				return
			}
			x.steps = append(x.steps, name+":subscribe(# q2) checkpoint")
			if !x.subscribe(name, []packet.Subscription{{Topic: "#", QOS: 2}}) {
				return
			}
			p := cl.Peers[name]
			_ = p.Send(&packet.Disconnect{})
			p.WaitEOF(bh.Watchdog)
			cl.B.WaitClosed(p.Name, bh.Watchdog)
			cl.Leave(name)
			x.model.Disconnect(name, true)
		}
	}
	if x.nt {
		r.NonTrivial(fmt.Sprintf("h%d:%v", idx, x.steps))
	}
	r.Count("subscriptions_checked", int64(x.nsub))
	r.Distinct("event_traces", cl.B.Log.Trace())
	r.Eval()
	if idx < 2 {
		r.Sample(map[string]interface{}{"history": x.steps})
	}
}

// concurrentRetained: a publisher streams numbered retained messages to one topic
// while subscribers subscribe at arbitrary moments. A new subscription must see
// the retained value that was current when it took effect and every later one:
// no gap between the replayed value and the live stream.
func concurrentRetained(r *h.Run, idx int) {
	if r.TooMany() {
		return
	}
	rng := r.Rand(fmt.Sprintf("c11-conc-%d", idx))
	r.Journal("C11 concurrent retained #%d", idx)
	b := bh.NewBroker()
	if idx%2 == 0 {
		b.Mon.Perturb = r.Rand(fmt.Sprintf("c11-conc-perturb-%d", idx))
	}
	defer b.Shutdown()
	fail := func(key, msg string) {
		r.Violation("concurrent/"+key, fmt.Sprintf("concurrent retained #%d: %s", idx, msg), map[string]interface{}{"detail": msg, "event_log_tail": b.Log.Dump(150)})
	}
	M := 40 + rng.Intn(60)
	nsub := 3 + rng.Intn(6)
	pub, _, pca, err := b.Connect("pub", bh.ConnectOpts{ID: "c11-cpub", Clean: true, AutoAck: true}, nil)
	if err != nil || pca == nil {
		r.Inconclusive("publisher")
		return
	}
	// background load on the backend's global lock
	load, _, lca, err := b.Connect("load", bh.ConnectOpts{ID: "c11-load", Clean: true, AutoAck: true}, nil)
	if err != nil || lca == nil {
		r.Inconclusive("load client")
		return
	}
	stop := make(chan struct{})
	loadDone := make(chan struct{})
	go func() {
		defer close(loadDone)
		for i := 0; ; i++ {
			select {
			case <-stop:
				return
			default:
			}
			if load.Send(&packet.Publish{Message: packet.Message{Topic: "load/x", Payload: []byte("l"), Retain: i%2 == 0}}) != nil {
				return
			}
			if i%16 == 15 {
				if bh.Ping(load) != nil {
					return
				}
			}
		}
	}()
	pubDone := make(chan struct{})
	go func() {
		defer close(pubDone)
		for v := 1; v <= M; v++ {
			if pub.Send(&packet.Publish{Message: packet.Message{Topic: "cc/t", Payload: []byte(fmt.Sprintf("v|%05d", v)), Retain: true}}) != nil {
				return
			}
			if v%3 == 0 {
				if bh.Ping(pub) != nil {
					return
				}
			}
		}
		_ = bh.Ping(pub)
	}()
	subs := make([]*bh.Peer, nsub)
	delays := make([]time.Duration, nsub)
	for j := range delays {
		delays[j] = time.Duration(rng.Intn(3000)+j*400) * time.Microsecond
	}
	var wg sync.WaitGroup
	for j := 0; j < nsub; j++ {
		wg.Add(1)
		go func(j int) {
			defer wg.Done()
			time.Sleep(delays[j])
			p, _, ca, err := b.Connect(fmt.Sprintf("sub%d", j), bh.ConnectOpts{ID: fmt.Sprintf("c11-csub%d", j), Clean: true, AutoAck: true}, nil)
			if err != nil || ca == nil {
				return
			}
			_ = p.Send(&packet.Subscribe{ID: 1, Subscriptions: []packet.Subscription{{Topic: "cc/#", QOS: 0}}})
			if _, err := bh.AwaitAck(p, packet.SUBACK, 1); err != nil {
				return
			}
			subs[j] = p
		}(j)
	}
	wg.Wait()
	<-pubDone
	close(stop)
	<-loadDone
	// end marker through the same (QoS 0) queue
	_ = pub.Send(&packet.Publish{Message: packet.Message{Topic: "cc/t", Payload: []byte("END")}})
	if bh.Ping(pub) != nil {
		r.Inconclusive("publisher ping")
		return
	}
	gaps := 0
	for j, p := range subs {
		if p == nil {
			continue
		}
		ok := p.WaitCond(bh.Watchdog, func(all []packet.Generic) bool {
			for i := len(all) - 1; i >= 0; i-- {
				if pp, is := all[i].(*packet.Publish); is && string(pp.Message.Payload) == "END" {
					return true
				}
			}
			return false
		})
		if !ok {
			fail("end-marker-missing", fmt.Sprintf("subscriber %d never received the end marker", j))
			return
		}
		var vals []int
		replays := 0
		for _, g := range p.All() {
			pp, is := g.(*packet.Publish)
			if !is || !strings.HasPrefix(string(pp.Message.Payload), "v|") {
				continue
			}
			var v int
			fmt.Sscanf(string(pp.Message.Payload), "v|%d", &v)
			if pp.Message.Retain {
				replays++
				if len(vals) > 0 {
					fail("replay-after-live", fmt.Sprintf("subscriber %d received a retained-flagged copy (value %d) after live deliveries %v", j, v, vals))
					return
				}
			}
			vals = append(vals, v)
		}
		if replays > 1 {
			fail("replay-twice", fmt.Sprintf("subscriber %d received %d retained-flagged copies for one subscription", j, replays))
			return
		}
		if len(vals) == 0 {
			fail("nothing-received", fmt.Sprintf("subscriber %d subscribed while %d retained values were published and received neither a replay nor a live copy", j, M))
			return
		}
		seen := map[int]bool{}
		for _, v := range vals {
			seen[v] = true
		}
		for v := vals[0]; v <= M; v++ {
			if !seen[v] {
				fail("gap", fmt.Sprintf("subscriber %d received values %v (first was a replay: %t): value %d is missing although it was published after the subscription took effect (stream 1..%d)", j, clipInts(vals), replays == 1, v, M))
				return
			}
		}
		if vals[0] > 1 && vals[0] < M {
			gaps++
		}
	}
	if gaps > 0 {
		r.NonTrivial(fmt.Sprintf("conc:%d", idx))
	}
	r.Count("subscriptions_taken_mid_stream", int64(gaps))
	r.Eval()
}

func clipInts(v []int) []int {
	if len(v) > 24 {
		return append(append([]int{}, v[:12]...), v[len(v)-12:]...)
	}
	return v
}

// settleOffline: after the persistent subscriber resumed, it receives what was
// queued while offline (flag cleared); nobody else receives anything.
func (x *hist) settleOffline(who string, exp []ref.Expect) bool {
	return x.settle(map[string][]ref.Expect{who: exp})
}

// stalledVictim: a client that subscribes to its own will topic stops
// acknowledging; its window and its session queue fill up (queue size 3,
// window 2); its connection is lost. The retained will is a retained message
// like any other: a later subscriber gets it, whatever happened to the copy
// meant for the dying client itself. The live copies stay inside the documented
// overflow behaviour and are not judged.
func stalledVictim(r *h.Run, idx int) {
	if r.TooMany() {
		return
	}
	r.Journal("C11 stalled victim #%d", idx)
	b := bh.NewBroker()
	b.Mon.Inner.SessionQueueSize = 3
	b.Mon.Inner.ClientInflightMessages = 2
	defer b.Shutdown()
	fail := func(key, msg string) {
		r.Violation("stalled/"+key, fmt.Sprintf("stalled victim #%d: %s", idx, msg), map[string]interface{}{"detail": msg, "event_log_tail": b.Log.Dump(150)})
	}
	wq := packet.QOS(idx % 3)
	clean := idx%2 == 0
	willPayload := fmt.Sprintf("will-%d", idx)
	v, _, vca, err := b.Connect("victim", bh.ConnectOpts{ID: "c11-stalled", Clean: clean, Will: &packet.Message{Topic: "w/v", Payload: []byte(willPayload), QOS: wq, Retain: true}}, nil)
	if err != nil || vca == nil {
		r.Inconclusive("stalled victim could not connect")
		return
	}
	_ = v.Send(&packet.Subscribe{ID: 1, Subscriptions: []packet.Subscription{{Topic: "#", QOS: 1}}})
	if _, err := bh.AwaitAck(v, packet.SUBACK, 1); err != nil {
		r.Inconclusive("stalled victim SUBACK")
		return
	}
	pub, _, pca, err := b.Connect("pub", bh.ConnectOpts{ID: "c11-spub", Clean: true, AutoAck: true}, nil)
	if err != nil || pca == nil {
		r.Inconclusive("publisher")
		return
	}
	// window (2) + queue (3) = 5 messages are absorbed, the sixth blocks the
	// publisher's processor until the victim is closing
	for i := 1; i <= 6; i++ {
		_ = pub.Send(&packet.Publish{ID: packet.ID(i), Message: packet.Message{Topic: "x/y", QOS: 1, Payload: []byte(fmt.Sprintf("fill-%d", i))}})
	}
	if _, err := bh.AwaitAck(pub, packet.PUBACK, 5); err != nil {
		r.Inconclusive("publisher PUBACK 5")
		return
	}
	time.Sleep(2 * time.Millisecond) // shaping: let the sixth publish reach the full queue
	v.Close()
	if !b.WaitClosed("victim", bh.Watchdog) {
		fail("victim-not-closed", "the stalled victim's client never closed")
		return
	}
	if bh.Ping(pub) != nil {
		r.Inconclusive("publisher ping after the victim died")
		return
	}
	probe, _, qca, err := b.Connect("probe", bh.ConnectOpts{ID: "c11-sprobe", Clean: true, AutoAck: true}, nil)
	if err != nil || qca == nil {
		r.Inconclusive("probe")
		return
	}
	_ = probe.Send(&packet.Subscribe{ID: 1, Subscriptions: []packet.Subscription{{Topic: "w/#", QOS: 2}}})
	if _, err := bh.AwaitAck(probe, packet.SUBACK, 1); err != nil {
		r.Inconclusive("probe SUBACK")
		return
	}
	// fence: replays travel through the subscriber's temporary queue; a marker
	// published afterwards travels behind them
	_ = pub.Send(&packet.Publish{Message: packet.Message{Topic: "w/marker", Payload: []byte("marker")}})
	if _, err := probe.WaitFor(bh.Watchdog, func(g packet.Generic) bool {
		pp, ok := g.(*packet.Publish)
		return ok && pp.Message.Topic == "w/marker"
	}); err != nil {
		r.Inconclusive("probe marker")
		return
	}
	n := 0
	for _, g := range probe.All() {
		if pp, ok := g.(*packet.Publish); ok && pp.Message.Topic == "w/v" {
			n++
			if string(pp.Message.Payload) != willPayload || !pp.Message.Retain || pp.Message.QOS != wq {
				fail("will-altered", fmt.Sprintf("retained will replayed as %s", ref.Canon(pp)))
			}
		}
	}
	if n != 1 {
		fail("retained-will-missing", fmt.Sprintf("a client whose own queue was full died; its retained will (qos %d) was replayed %d times to a later subscriber of w/#, expected once", wq, n))
	}
	r.Eval()
	r.NonTrivial(fmt.Sprintf("stalled:%d:%t", wq, clean))
}

func TestCheck(t *testing.T) {
	r := h.New("C11", "exploration")
	fs := filterSet()
	r.Rule(fmt.Sprintf("PRNG histories of 14-28 steps over 7 topics (incl. empty levels and a leading '/'): retained / plain / empty-retained publishes at QoS 0-2 by two publishers, retained and plain wills of victims whose connection is dropped, probe subscribers using every filter of the depth<=3 universe over {a,b,empty,+,#} (%d filters, cycled deterministically, 1-3 filters per SUBSCRIBE, repeated subscriptions), a live '#' observer, an offline persistent subscriber, and '#' checkpoints; after every step a marker fence and comparison of all received PUBLISH packets (topic, payload, retain flag, QoS cap, count) with the retained-map model. Concurrent part: a publisher streams 40-100 numbered retained QoS 0 messages to one topic under background load on the backend while 3-8 subscribers subscribe at PRNG moments; each must receive at most one replay, first, and then every later value without a gap. Stalled-victim part: a client subscribed to its own retained will's topic stops acknowledging until its window (2) and queue (3) are full and loses its connection; a later subscriber must get the retained will. Non-trivial = histories with a subscription made while >= 2 topics are retained and at least one does not match; distinct by history", len(fs)))
	r.Assume("retained replay for a SUBSCRIBE with k matching filters may arrive 1..k times (per-filter replay)")
	r.Assume("QoS 0 publishes while a persistent subscriber is offline may be dropped")
	n := r.Pick(120, 2500)
	h.Parallel(n, 8, func(i int) { run(r, i, fs) })
	r.Count("histories", int64(n))
	nc := r.Pick(150, 3000)
	h.Parallel(nc, 8, func(i int) { concurrentRetained(r, i) })
	r.Count("concurrent_retained_runs", int64(nc))
	ns := r.Pick(12, 120)
	h.Parallel(ns, 8, func(i int) { stalledVictim(r, i) })
	r.Count("stalled_victim_runs", int64(ns))
	h.Exit(r.Finish(20))
}
