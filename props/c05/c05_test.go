// C05 — topic tree ≡ map after any history; ops atomic; results are snapshots.
// Monitors: map model driven side by side (all queries after every step),
// trie shape vs a freshly built tree (history independence), snapshot
// re-comparison of every result ever returned, porcupine on concurrent
// histories, race detector.
package c05

import (
	"fmt"
	"sort"
	"strings"
	"sync"
	"sync/atomic"
	"testing"
	"time"

	"github.com/256dpi/gomqtt/topic"
	"github.com/anishathalye/porcupine"

	"verif/internal/h"
	"verif/internal/lin"
	"verif/internal/ref"
)

type op struct {
	Kind  string // add set remove empty clear reset | get match search matchfirst searchfirst all count
	Topic string
	Val   int
}

func (o op) String() string {
	switch o.Kind {
	case "add", "set", "remove":
		return fmt.Sprintf("%s(%q,%d)", o.Kind, o.Topic, o.Val)
	case "clear":
		return fmt.Sprintf("clear(%d)", o.Val)
	case "reset", "all", "count":
		return o.Kind + "()"
	}
	return fmt.Sprintf("%s(%q)", o.Kind, o.Topic)
}

func (o op) mutating() bool {
	switch o.Kind {
	case "add", "set", "remove", "empty", "clear", "reset":
		return true
	}
	return false
}

// ---- model ---------------------------------------------------------------
type model map[string][]int

func (m model) clone() model {
	c := model{}
	for k, v := range m {
		c[k] = append([]int(nil), v...)
	}
	return c
}

func has(xs []int, v int) bool {
	for _, x := range xs {
		if x == v {
			return true
		}
	}
	return false
}

func without(xs []int, v int) []int {
	var out []int
	for _, x := range xs {
		if x != v {
			out = append(out, x)
		}
	}
	return out
}

func (m model) mutate(o op) {
	switch o.Kind {
	case "add":
		if !has(m[o.Topic], o.Val) {
			m[o.Topic] = append(m[o.Topic], o.Val)
		}
	case "set":
		m[o.Topic] = []int{o.Val}
	case "remove":
		m[o.Topic] = without(m[o.Topic], o.Val)
		if len(m[o.Topic]) == 0 {
			delete(m, o.Topic)
		}
	case "empty":
		delete(m, o.Topic)
	case "clear":
		for k := range m {
			m[k] = without(m[k], o.Val)
			if len(m[k]) == 0 {
				delete(m, k)
			}
		}
	case "reset":
		for k := range m {
			delete(m, k)
		}
	}
}

func uniqSorted(xs []int) []int {
	sort.Ints(xs)
	var out []int
	for i, x := range xs {
		if i == 0 || x != xs[i-1] {
			out = append(out, x)
		}
	}
	return out
}

// query returns the model's answer: a sorted duplicate-free value set (or count)
func (m model) query(o op) []int {
	var out []int
	switch o.Kind {
	case "get":
		out = append(out, m[o.Topic]...)
	case "match", "matchfirst":
		for t, vs := range m {
			if ref.Matches(t, o.Topic) {
				out = append(out, vs...)
			}
		}
	case "search", "searchfirst":
		for t, vs := range m {
			if ref.Matches(o.Topic, t) {
				out = append(out, vs...)
			}
		}
	case "all":
		for _, vs := range m {
			out = append(out, vs...)
		}
	case "count":
		n := 0
		for _, vs := range m {
			n += len(vs)
		}
		return []int{n}
	}
	return uniqSorted(out)
}

// ---- real tree -----------------------------------------------------------
func ints(vs []interface{}) []int {
	out := make([]int, 0, len(vs))
	for _, v := range vs {
		if i, ok := v.(int); ok {
			out = append(out, i)
		} else {
			out = append(out, -999) // nil or foreign value inside a result
		}
	}
	return out
}

// result of a real query: raw slice (for snapshots), values in returned order
func doReal(t *topic.Tree, o op) (raw []interface{}, vals []int, isNil bool) {
	switch o.Kind {
	case "add":
		t.Add(o.Topic, o.Val)
	case "set":
		t.Set(o.Topic, o.Val)
	case "remove":
		t.Remove(o.Topic, o.Val)
	case "empty":
		t.Empty(o.Topic)
	case "clear":
		t.Clear(o.Val)
	case "reset":
		t.Reset()
	case "get":
		raw = t.Get(o.Topic)
		return raw, ints(raw), false
	case "match":
		raw = t.Match(o.Topic)
		return raw, ints(raw), false
	case "search":
		raw = t.Search(o.Topic)
		return raw, ints(raw), false
	case "all":
		raw = t.All()
		return raw, ints(raw), false
	case "count":
		return nil, []int{t.Count()}, false
	case "matchfirst", "searchfirst":
		var v interface{}
		if o.Kind == "matchfirst" {
			v = t.MatchFirst(o.Topic)
		} else {
			v = t.SearchFirst(o.Topic)
		}
		if v == nil {
			return nil, nil, true
		}
		return nil, []int{v.(int)}, false
	}
	return nil, nil, false
}

// agree compares a real answer with the model's
func agree(o op, vals []int, isNil bool, want []int) bool {
	switch o.Kind {
	case "matchfirst", "searchfirst":
		if isNil {
			return len(want) == 0
		}
		return len(vals) == 1 && has(want, vals[0])
	case "count":
		return vals[0] == want[0]
	}
	// duplicate-free and same set
	got := append([]int(nil), vals...)
	sort.Ints(got)
	for i := 1; i < len(got); i++ {
		if got[i] == got[i-1] {
			return false
		}
	}
	return fmt.Sprint(got) == fmt.Sprint(want) || (len(got) == 0 && len(want) == 0)
}

// shape parses Tree.String() into an order-independent set of path=count
func shape(t *topic.Tree) string {
	lines := strings.Split(t.String(), "\n")
	var stack []string
	var out []string
	for _, l := range lines[1:] {
		if !strings.HasPrefix(l, "| ") {
			continue
		}
		body := l[2:]
		indent := len(body) - len(strings.TrimLeft(body, " "))
		depth := indent / 2
		body = strings.TrimLeft(body, " ")
		// 'seg' => N
		i := strings.LastIndex(body, "' => ")
		seg := body[1:i]
		cnt := body[i+5:]
		if depth < len(stack) {
			stack = stack[:depth]
		}
		stack = append(stack, seg)
		out = append(out, strings.Join(stack, "\x1f")+"="+cnt)
	}
	sort.Strings(out)
	return strings.Join(out, ";")
}

func freshShape(m model) string {
	t := topic.NewStandardTree()
	for k, vs := range m {
		for _, v := range vs {
			t.Add(k, v)
		}
	}
	return shape(t)
}

type snap struct {
	o     op
	step  int
	raw   []interface{}
	saved []int
}

// runSeq drives tree and model side by side
func runSeq(r *h.Run, seq []op, queries []op, label string, full bool) {
	t := topic.NewStandardTree()
	m := model{}
	var snaps []snap
	pruned := false
	fail := func(key, msg string, i int) {
		r.Violation(key, fmt.Sprintf("%s: sequence %v, after step %d: %s", label, seq[:i+1], i, msg),
			map[string]interface{}{"sequence": fmt.Sprint(seq[:i+1]), "step": i, "detail": msg, "model": fmt.Sprint(m), "tree": t.String()})
	}
	for i, o := range seq {
		before := len(m)
		doReal(t, o)
		m.mutate(o)
		if len(m) < before && len(m) > 0 {
			pruned = true
		}
		// snapshots taken earlier must not have changed
		for _, s := range snaps {
			if fmt.Sprint(ints(s.raw)) != fmt.Sprint(s.saved) {
				fail("snapshot/"+s.o.Kind, fmt.Sprintf("the result of %v returned after step %d was %v and has become %v after %v", s.o, s.step, s.saved, ints(s.raw), o), i)
				return
			}
		}
		if !full && i != len(seq)-1 && i%7 != 0 {
			continue
		}
		for _, q := range queries {
			raw, vals, isNil := doReal(t, q)
			want := m.query(q)
			if !agree(q, vals, isNil, want) {
				fail("model/"+q.Kind, fmt.Sprintf("%v returned %v (nil=%t), the map model says %v", q, vals, isNil, want), i)
				return
			}
			if raw != nil && len(raw) > 0 {
				snaps = append(snaps, snap{q, i, raw, append([]int(nil), vals...)})
			}
		}
		if got, want := shape(t), freshShape(m); got != want {
			fail("shape", fmt.Sprintf("trie shape %q differs from a fresh tree with the same contents %q", got, want), i)
			return
		}
		if len(snaps) > 400 {
			snaps = snaps[len(snaps)-200:]
		}
	}
	if pruned {
		r.NonTrivial("seq:" + fmt.Sprint(seq))
	}
}

func mutators(topics []string, vals []int) []op {
	var out []op
	for _, t := range topics {
		for _, v := range vals {
			out = append(out, op{"add", t, v}, op{"set", t, v}, op{"remove", t, v})
		}
		out = append(out, op{Kind: "empty", Topic: t})
	}
	for _, v := range vals {
		out = append(out, op{Kind: "clear", Val: v})
	}
	return append(out, op{Kind: "reset"})
}

func queriesFor(topics, names, filters []string) []op {
	var out []op
	for _, t := range topics {
		out = append(out, op{Kind: "get", Topic: t})
	}
	out = append(out, op{Kind: "get", Topic: "zz/none"})
	for _, n := range names {
		out = append(out, op{Kind: "match", Topic: n}, op{Kind: "matchfirst", Topic: n})
	}
	for _, f := range filters {
		out = append(out, op{Kind: "search", Topic: f}, op{Kind: "searchfirst", Topic: f})
	}
	return append(out, op{Kind: "all"}, op{Kind: "count"})
}

func exhaustive(r *h.Run, topics []string, vals []int, names, filters []string, maxLen int, label string) int64 {
	alpha := mutators(topics, vals)
	qs := queriesFor(topics, names, filters)
	var n int64
	h.Parallel(len(alpha), 16, func(a int) {
		seq := []op{alpha[a]}
		var rec func()
		rec = func() {
			if len(seq) == maxLen {
				runSeq(r, seq, qs, label, true)
				atomic.AddInt64(&n, 1)
				return
			}
			for _, o := range alpha {
				seq = append(seq, o)
				rec()
				seq = seq[:len(seq)-1]
			}
		}
		rec()
	})
	return n
}

func TestCheck(t *testing.T) {
	r := h.New("C05", "exploration")
	r.Rule("sequential: all mutation sequences of exactly length L (prefixes are checked on the way: every query after every step) over 4 topics {a, a/b, a/+, b} x 2 values with Add/Set/Remove/Empty/Clear/Reset, L=3 quick, L=4 thorough, plus L=5 over the parent/child pair {a, a/b} thorough; random sequences up to length 400 over larger universes; after every step all queries (Get/Match/MatchFirst/Search/SearchFirst/All/Count) are compared with the map model, the trie shape (parsed from String()) with a fresh tree of the same contents, and every result slice returned earlier is re-compared with its copy. Concurrent: 2-16 goroutines x 3-6 ops, values unique per goroutine, recorded at the call boundary and checked by porcupine against the same map model, under the race detector. Non-trivial/distinct = sequences in which a removal deletes a topic while others survive (by sequence), concurrent histories with >=2 overlapping mutating ops (by history)")
	r.Assume("result order is not compared (the property promises sets); MatchFirst/SearchFirst may return any member of the result set")
	r.Assume("stored topics containing '+' are treated by Search as names with a literal '+' level")
	r.Exhaustive()

	topics := []string{"a", "a/b", "a/+", "b"}
	names := []string{"a", "a/b", "a/c", "b", "c"}
	filters := []string{"a", "a/+", "a/#", "#", "+", "+/b", "b/#"}
	n := exhaustive(r, topics, []int{1, 2}, names, filters, r.Pick(3, 4), "exhaustive-4-topics")
	r.Count("sequences_exhaustive_4topics", n)
	r.EvalN(int(n))
	if !r.Quick() {
		n := exhaustive(r, []string{"a", "a/b"}, []int{1, 2}, []string{"a", "a/b", "b"}, []string{"a/#", "+", "a/+"}, 5, "exhaustive-2-topics")
		r.Count("sequences_exhaustive_2topics_len5", n)
		r.EvalN(int(n))
	}
	r.Sample(map[string]interface{}{"mutator_alphabet": fmt.Sprint(mutators(topics, []int{1, 2})), "queries": fmt.Sprint(queriesFor(topics, names, filters))})

	// random long sequences over larger universes
	nr := r.Pick(300, 6000)
	h.Parallel(nr, 16, func(i int) {
		rng := r.Rand(fmt.Sprintf("c05-rand-%d", i))
		segs := []string{"a", "b", "", "+", "c"}
		var tops []string
		for k := 0; k < 4+rng.Intn(8); k++ {
			d := 1 + rng.Intn(4)
			var ss []string
			for j := 0; j < d; j++ {
				ss = append(ss, segs[rng.Intn(len(segs))])
			}
			if rng.Intn(5) == 0 {
				ss = append(ss, "#")
			}
			tp := strings.Join(ss, "/")
			if tp != "" {
				tops = append(tops, tp)
			}
		}
		if len(tops) == 0 {
			tops = []string{"a"}
		}
		var nm, fl []string
		for _, tp := range tops {
			n := strings.NewReplacer("+", "a", "/#", "", "#", "b").Replace(tp)
			if n != "" {
				nm = append(nm, n)
			}
			if !strings.Contains(tp, "+") && !strings.Contains(tp, "#") {
				ss := strings.Split(tp, "/")
				ss[rng.Intn(len(ss))] = "+"
				fl = append(fl, strings.Join(ss, "/"), tp+"/#")
			}
		}
		fl = append(fl, "#")
		vals := []int{1, 2, 3, 4}[:2+rng.Intn(3)]
		alpha := mutators(tops, vals)
		seq := make([]op, 20+rng.Intn(380))
		for k := range seq {
			o := alpha[rng.Intn(len(alpha))]
			if (o.Kind == "reset" || o.Kind == "clear") && rng.Intn(6) != 0 {
				o = alpha[rng.Intn(len(alpha)-1-len(vals))]
			}
			seq[k] = o
		}
		runSeq(r, seq, queriesFor(tops, nm, fl), "random", false)
		r.Eval()
		if i == 0 {
			r.Sample(map[string]interface{}{"random_sequence_prefix": fmt.Sprint(seq[:10]), "topics": tops})
		}
	})
	r.Count("sequences_random", int64(nr))

	// ---------------------------------------------------------- concurrent
	pm := porcupine.Model{
		Init: func() interface{} { return "" },
		Step: func(st, in, out interface{}) (bool, interface{}) {
			m := decode(st.(string))
			o := in.(op)
			if o.mutating() {
				m.mutate(o)
				return true, encode(m)
			}
			res := out.(result)
			return agree(o, res.vals, res.isNil, m.query(o)), st
		},
		DescribeOperation: func(in, out interface{}) string { return fmt.Sprintf("%v -> %v", in, out) },
	}
	hist := r.Pick(2500, 50000)
	var unknown, illegal int64
	ctopics := []string{"a", "a/b", "a/+"}
	h.Parallel(hist, 4, func(i int) {
		rng := r.Rand(fmt.Sprintf("c05-conc-%d", i))
		tr := topic.NewStandardTree()
		rec := &lin.Recorder{}
		g := 2 + rng.Intn(15)
		per := 3 + rng.Intn(4)
		for g*per > 24 {
			g--
		}
		// a common prefix so that removals have something to remove
		pre := 0
		if rng.Intn(2) == 0 {
			pre = 1 + rng.Intn(3)
		}
		for k := 0; k < pre; k++ {
			o := op{"add", ctopics[rng.Intn(len(ctopics))], 100 + k}
			rec.Do(0, o, func() interface{} { doReal(tr, o); return result{} })
		}
		plans := make([][]op, g)
		for j := range plans {
			vals := []int{j*10 + 1, j*10 + 2, 100, 101}
			alpha := mutators(ctopics, vals)
			qs := queriesFor(ctopics, []string{"a/b", "a"}, []string{"a/+", "#"})
			for k := 0; k < per; k++ {
				if rng.Intn(5) < 2 {
					plans[j] = append(plans[j], qs[rng.Intn(len(qs))])
				} else {
					o := alpha[rng.Intn(len(alpha))]
					if o.Kind == "reset" && rng.Intn(3) != 0 {
						o = alpha[rng.Intn(len(alpha)-1)]
					}
					plans[j] = append(plans[j], o)
				}
			}
		}
		var wg sync.WaitGroup
		gate := make(chan struct{})
		for j := 0; j < g; j++ {
			wg.Add(1)
			go func(j int) {
				defer wg.Done()
				<-gate
				for _, o := range plans[j] {
					o := o
					rec.Do(j+1, o, func() interface{} {
						_, vals, isNil := doReal(tr, o)
						return result{vals: vals, isNil: isNil}
					})
				}
			}(j)
		}
		close(gate)
		wg.Wait()
		ops := rec.Ops()
		switch lin.Check(pm, ops, 10*time.Second) {
		case "illegal":
			if atomic.AddInt64(&illegal, 1) <= 3 {
				r.Violation("not-linearizable", fmt.Sprintf("concurrent tree history (%d goroutines x %d ops) has no linearization against the map model", g, per), map[string]interface{}{"history": describe(ops)})
			} else {
				r.Violation("not-linearizable", "", nil)
			}
		case "unknown":
			atomic.AddInt64(&unknown, 1)
		default:
			if overlapping(ops) {
				r.NonTrivial("hist:" + describe(ops))
			}
			r.Distinct("concurrent_histories", describe(ops))
		}
		r.Eval()
		if i == 0 {
			r.Sample(map[string]interface{}{"concurrent_history": describe(ops)})
		}
	})
	r.Count("porcupine_histories", int64(hist))
	r.Count("porcupine_unknown", unknown)
	if unknown > int64(hist/20) {
		r.Inconclusive(fmt.Sprintf("%d of %d porcupine checks timed out", unknown, hist))
	}
	h.Exit(r.Finish(300))
}

type result struct {
	vals  []int
	isNil bool
}

func (x result) String() string {
	if x.isNil {
		return "nil"
	}
	return fmt.Sprint(x.vals)
}

func describe(ops []porcupine.Operation) string {
	var sb strings.Builder
	for _, o := range ops {
		fmt.Fprintf(&sb, "[g%d %d-%d %v -> %v] ", o.ClientId, o.Call, o.Return, o.Input, o.Output)
	}
	return sb.String()
}

func encode(m model) string {
	var parts []string
	for k, vs := range m {
		s := append([]int(nil), vs...)
		sort.Ints(s)
		parts = append(parts, fmt.Sprintf("%s=%v", k, s))
	}
	sort.Strings(parts)
	return strings.Join(parts, ";")
}

func decode(s string) model {
	m := model{}
	if s == "" {
		return m
	}
	for _, part := range strings.Split(s, ";") {
		i := strings.Index(part, "=")
		var vs []int
		for _, f := range strings.Fields(strings.Trim(part[i+1:], "[]")) {
			var v int
			fmt.Sscan(f, &v)
			vs = append(vs, v)
		}
		m[part[:i]] = vs
	}
	return m
}

func overlapping(ops []porcupine.Operation) bool {
	for i := range ops {
		if !ops[i].Input.(op).mutating() {
			continue
		}
		for j := i + 1; j < len(ops); j++ {
			if ops[j].Input.(op).mutating() && ops[i].Call <= ops[j].Return && ops[j].Call <= ops[i].Return {
				return true
			}
		}
	}
	return false
}
