// C16 — inflight window is respected and delivery keeps flowing while acks flow.
// Monitors: online counter at the scripted subscriber (messages received and not
// yet finally acknowledged by it never exceed the window), marker-based drain
// check, token conservation at quiescence (VerifTokens hook).
package c16

import (
	"fmt"
	"sync"
	"testing"
	"time"

	"github.com/256dpi/gomqtt/packet"

	"verif/internal/bh"
	"verif/internal/h"
	"verif/internal/ref"
)

type policy struct {
	Window    int
	N         int    // stream length
	QoSMix    string // e.g. "012" cycle source
	Batch     int    // release pending acks when this many are pending
	Reverse   bool   // release in reverse order
	HalfQ2    bool   // send PUBREC at once, withhold PUBCOMP until released
	Reconnect int    // drop and resume after this many received messages (0 = never)
	AllQ0     bool
	IdleFirst bool // short token timeout; the connection idles longer than that before the stream starts
}

func (p policy) String() string {
	return fmt.Sprintf("window=%d n=%d mix=%s batch=%d reverse=%t halfq2=%t reconnect@%d idle-first=%t", p.Window, p.N, p.QoSMix, p.Batch, p.Reverse, p.HalfQ2, p.Reconnect, p.IdleFirst)
}

type subscriber struct {
	mu          sync.Mutex
	pol         policy
	peer        *bh.Peer
	outstanding map[string]bool // payload -> received at QoS>0 and not finally acknowledged by us
	pending     []packet.Generic
	flush       bool
	received    map[string]int
	maxOut      int
	violation   string
	nrecv       int
	dropAt      int
	dropped     bool
	idPayload   map[packet.ID]string
}

func (s *subscriber) release() []packet.Generic {
	out := s.pending
	s.pending = nil
	if s.pol.Reverse {
		for i, j := 0, len(out)-1; i < j; i, j = i+1, j-1 {
			out[i], out[j] = out[j], out[i]
		}
	}
	for _, g := range out {
		switch v := g.(type) {
		case *packet.Puback:
			delete(s.outstanding, s.idPayload[v.ID])
		case *packet.Pubcomp:
			delete(s.outstanding, s.idPayload[v.ID])
		}
	}
	return out
}

// onPacket runs in the peer's reader goroutine.
func (s *subscriber) onPacket(g packet.Generic) []packet.Generic {
	s.mu.Lock()
	defer s.mu.Unlock()
	var now []packet.Generic
	switch v := g.(type) {
	case *packet.Publish:
		pl := string(v.Message.Payload)
		s.received[pl]++
		s.nrecv++
		if v.Message.QOS > 0 {
			s.idPayload[v.ID] = pl
			s.outstanding[pl] = true
			if len(s.outstanding) > s.maxOut {
				s.maxOut = len(s.outstanding)
			}
			if len(s.outstanding) > s.pol.Window && s.violation == "" {
				s.violation = fmt.Sprintf("on receipt of %s the subscriber holds %d QoS>0 messages it has not finally acknowledged (window %d): %v", ref.Canon(v), len(s.outstanding), s.pol.Window, keys(s.outstanding))
			}
			if v.Message.QOS == 1 {
				s.pending = append(s.pending, &packet.Puback{ID: v.ID})
			} else if s.pol.HalfQ2 {
				now = append(now, &packet.Pubrec{ID: v.ID})
			} else {
				s.pending = append(s.pending, &packet.Pubrec{ID: v.ID})
			}
		}
		if s.dropAt > 0 && s.nrecv == s.dropAt && !s.dropped {
			s.dropped = true
			s.peer.Close()
			return nil
		}
	case *packet.Pubrel:
		s.pending = append(s.pending, &packet.Pubcomp{ID: v.ID})
	default:
		return nil
	}
	if s.flush || len(s.pending) >= s.pol.Batch || (len(s.outstanding) >= s.pol.Window && len(s.pending) > 0) {
		now = append(now, s.release()...)
	}
	return now
}

func keys(m map[string]bool) []string {
	var out []string
	for k := range m {
		out = append(out, k)
	}
	return out
}

func run(r *h.Run, idx int, pol policy) {
	if r.TooMany() {
		return
	}
	r.Journal("C16 #%d %v", idx, pol)
	b := bh.NewBroker()
	b.Mon.Inner.ClientInflightMessages = pol.Window
	if pol.IdleFirst {
		// a subscriber that acknowledges within milliseconds must never be hit by the token timeout
		// (3 s: a stop-the-world pause of the garbage collector under the race
		// detector was measured at 0.6 s; it must not be able to look like a
		// subscriber that withholds acknowledgements)
		b.Mon.Inner.ClientTokenTimeout = 3 * time.Second
	}
	defer b.Shutdown()
	fail := func(key, msg string) {
		r.Violation(key, fmt.Sprintf("%v: %s", pol, msg), map[string]interface{}{"policy": pol.String(), "detail": msg, "event_log_tail": b.Log.Dump(120)})
	}
	sub := &subscriber{pol: pol, outstanding: map[string]bool{}, received: map[string]int{}, idPayload: map[packet.ID]string{}, dropAt: pol.Reconnect}
	connN := 0
	connect := func() (*bh.Peer, bool) {
		connN++
		p, _, ca, err := b.Connect(fmt.Sprintf("sub#%d", connN), bh.ConnectOpts{ID: "c16-sub", Clean: false, OnPeer: func(p *bh.Peer) {
			sub.mu.Lock()
			sub.peer = p
			sub.pending = nil
			sub.mu.Unlock()
			p.AutoReply = sub.onPacket
		}}, nil)
		if err != nil || ca == nil {
			r.Inconclusive(fmt.Sprintf("%v: subscriber could not connect", pol))
			return p, false
		}
		return p, true
	}
	s, ok := connect()
	if !ok {
		return
	}
	_ = s.Send(&packet.Subscribe{ID: 1, Subscriptions: []packet.Subscription{{Topic: "s/#", QOS: 2}}})
	if _, err := bh.AwaitAck(s, packet.SUBACK, 1); err != nil {
		r.Inconclusive(fmt.Sprintf("%v: no SUBACK", pol))
		return
	}
	pub, _, pca, err := b.Connect("pub", bh.ConnectOpts{ID: "c16-pub", Clean: true, AutoAck: true}, nil)
	if err != nil || pca == nil {
		r.Inconclusive("publisher could not connect")
		return
	}
	if pol.IdleFirst {
		time.Sleep(3300 * time.Millisecond) // the connection is older than the token timeout when traffic starts
	}
	// publisher stream (own goroutine: Backend.Publish blocks while the subscriber's queue is full)
	var sent []string
	var sentQ []packet.QOS
	pubDone := make(chan error, 1)
	go func() {
		id := packet.ID(0)
		for i := 0; i < pol.N; i++ {
			q := packet.QOS(pol.QoSMix[i%len(pol.QoSMix)] - '0')
			pl := fmt.Sprintf("m%d-q%d", i, q)
			p := &packet.Publish{Message: packet.Message{Topic: "s/x", QOS: q, Payload: []byte(pl)}}
			if q > 0 {
				id++
				p.ID = id
			}
			sent = append(sent, pl)
			sentQ = append(sentQ, q)
			if err := pub.Send(p); err != nil {
				pubDone <- err
				return
			}
			var err error
			switch q {
			case 1:
				_, err = bh.AwaitAck(pub, packet.PUBACK, id)
			case 2:
				if _, err = bh.AwaitAck(pub, packet.PUBREC, id); err == nil {
					_ = pub.Send(&packet.Pubrel{ID: id})
					_, err = bh.AwaitAck(pub, packet.PUBCOMP, id)
				}
			}
			if err != nil {
				pubDone <- fmt.Errorf("publisher handshake for %s: %v", pl, err)
				return
			}
		}
		var err error
		pubDone <- err
	}()
	// reconnect handling
	reconnected := false
	if pol.Reconnect > 0 {
		if s.WaitEOF(bh.Watchdog) {
			b.WaitClosed(s.Name, bh.Watchdog)
			var ok bool
			s, ok = connect()
			if !ok {
				return
			}
			reconnected = true
		} else {
			// fewer messages than the drop point: fine, no reconnect happened
		}
	}
	if err := <-pubDone; err != nil {
		sub.mu.Lock()
		v := sub.violation
		sub.mu.Unlock()
		if v != "" {
			fail("window-exceeded", v)
			return
		}
		if s.EOF() {
			fail("subscriber-killed", fmt.Sprintf("the subscriber acknowledges what it receives but its connection was closed by the broker; publisher: %v", err))
			return
		}
		r.Inconclusive(fmt.Sprintf("%v: publisher did not finish: %v", pol, err))
		return
	}
	// final markers, one per session queue (QoS 0 and QoS>0 messages travel in
	// separate FIFO queues); published only now that the subscriber is connected
	_ = pub.Send(&packet.Publish{Message: packet.Message{Topic: "s/final", QOS: 0, Payload: []byte("final0")}})
	_ = pub.Send(&packet.Publish{ID: 65000, Message: packet.Message{Topic: "s/final", QOS: 1, Payload: []byte("final")}})
	if _, err := bh.AwaitAck(pub, packet.PUBACK, 65000); err != nil {
		r.Inconclusive(fmt.Sprintf("%v: final marker not acknowledged: %v", pol, err))
		return
	}
	// flush mode: acknowledge everything from now on
	sub.mu.Lock()
	sub.flush = true
	rel := sub.release()
	sub.mu.Unlock()
	for _, g := range rel {
		_ = s.Send(g)
	}
	ok = s.WaitCond(bh.Watchdog, func(all []packet.Generic) bool {
		f0, f1 := false, false
		for i := len(all) - 1; i >= 0 && !(f0 && f1); i-- {
			if p, is := all[i].(*packet.Publish); is {
				switch string(p.Message.Payload) {
				case "final":
					f1 = true
				case "final0":
					f0 = true
				}
			}
		}
		return f0 && f1
	})
	sub.mu.Lock()
	viol, maxOut := sub.violation, sub.maxOut
	sub.mu.Unlock()
	if viol != "" {
		fail("window-exceeded", viol)
		return
	}
	if !ok {
		if s.EOF() {
			fail("subscriber-killed", "the subscriber acknowledges everything it receives but the broker closed its connection before the stream was delivered")
		} else {
			fail("delivery-stalled", fmt.Sprintf("the subscriber acknowledged everything but the final message of the stream never arrived (received %d of %d)", len(sub.received), pol.N+1))
		}
		return
	}
	for k := 0; k < 2; k++ {
		if err := bh.Ping(s); err != nil {
			fail("subscriber-killed", "connection lost during the final fence: "+err.Error())
			return
		}
	}
	// settle: the subscriber's reader goroutine writes its last acknowledgements
	// after it has taken them off its books, possibly after the two PINGs above;
	// fence behind them (bounded) until the broker's count is at rest. A leaked
	// token never comes back, so waiting cannot hide one.
	if ci := b.ClientOf(s.Name); ci != nil {
		for k := 0; k < 50; k++ {
			free, _, _, _, _, _ := ci.Client.VerifTokens()
			if free >= pol.Window-1 || bh.Ping(s) != nil {
				break
			}
			time.Sleep(time.Millisecond)
		}
	}
	// completeness
	sub.mu.Lock()
	defer sub.mu.Unlock()
	for i, pl := range sent {
		n := sub.received[pl]
		if n == 0 && (sentQ[i] > 0 || !reconnected) {
			fail("message-lost", fmt.Sprintf("message %s (QoS %d) never reached the subscriber", pl, sentQ[i]))
			return
		}
	}
	if len(sub.outstanding) != 0 {
		fail("handshake-incomplete", fmt.Sprintf("flows not completed at the end: %v", keys(sub.outstanding)))
		return
	}
	// token conservation at quiescence: all slots free except the one the parked dequeuer holds
	if ci := b.ClientOf(s.Name); ci != nil {
		free, capacity, _, _, _, _ := ci.Client.VerifTokens()
		if capacity != pol.Window {
			fail("window-config", fmt.Sprintf("dequeue token capacity %d, configured window %d", capacity, pol.Window))
		}
		if free != pol.Window-1 && free != pol.Window {
			fail("tokens-not-conserved", fmt.Sprintf("at quiescence (everything acknowledged) %d of %d window slots are free; expected %d (one is held by the idle dequeuer)", free, capacity, pol.Window-1))
		}
	}
	if pol.N > pol.Window && !pol.AllQ0 {
		r.NonTrivial(pol.String())
	}
	r.Count("max_outstanding_seen_eq_window", boolToInt(maxOut == pol.Window))
	r.Distinct("event_traces", fmt.Sprintf("%v/%d", pol, maxOut))
	r.Eval()
	if idx < 3 {
		r.Sample(map[string]interface{}{"policy": pol.String(), "max_outstanding_at_subscriber": maxOut, "messages_received": len(sub.received)})
	}
}

func boolToInt(b bool) int64 {
	if b {
		return 1
	}
	return 0
}

func TestCheck(t *testing.T) {
	r := h.New("C16", "exploration")
	r.Rule("windows 1-10 x streams of 1..20 x window messages x QoS mixes x acknowledgement policy {immediate, batched 1..window, reversed order, QoS 2 half-way (PUBREC at once, PUBCOMP withheld until the window is full), drop+resume in between, incl. resumptions that find the whole window in the PUBREL stage}; the scripted subscriber counts messages received at QoS>0 and not yet finally acknowledged by itself (never above the window, retransmissions included), must receive the whole stream and a final marker while it acknowledges, and at quiescence the free dequeue tokens must equal window-1 (idle dequeuer holds one). Non-trivial = streams longer than the window with >= 1 QoS>0 message; distinct by policy")
	r.Assume("only acknowledgements for packets actually received are sent; the subscriber releases withheld acknowledgements when its window is full (otherwise nothing more can arrive)")
	rng := r.Rand("c16")
	n := r.Pick(1200, 20000)
	var pols []policy
	for i := 0; i < n; i++ {
		w := 1 + i%10
		p := policy{Window: w, N: 1 + rng.Intn(20*w), Batch: 1 + rng.Intn(w), Reverse: rng.Intn(3) == 0, HalfQ2: rng.Intn(3) == 0}
		p.QoSMix = []string{"1", "2", "12", "012", "0", "0012", "2221", "10"}[rng.Intn(8)]
		if p.QoSMix == "0" {
			p.AllQ0 = true
			p.N = 50 + rng.Intn(400)
		}
		if r.Quick() && p.N > 60 && !p.AllQ0 {
			p.N = 20 + rng.Intn(40)
		}
		if rng.Intn(3) == 0 {
			p.Reconnect = 1 + rng.Intn(p.N)
		}
		pols = append(pols, p)
	}
	// resumptions that find the whole window in the PUBREL stage (PUBREC sent,
	// PUBCOMP withheld), for every small window: the retransmitted PUBRELs hold
	// their slots
	for w := 1; w <= 5; w++ {
		for _, at := range []int{w, w + 1, 2 * w} {
			pols = append(pols, policy{Window: w, N: 4*w + 2, QoSMix: "2", Batch: w, HalfQ2: true, Reconnect: at})
		}
	}
	// long-idle connections with a short token timeout, then window saturation
	for i := 0; i < r.Pick(12, 120); i++ {
		w := 1 + i%4
		pols = append(pols, policy{Window: w, N: 12 + rng.Intn(20), QoSMix: []string{"1", "2", "12"}[i%3], Batch: w, Reverse: i%2 == 0, HalfQ2: i%3 == 0, IdleFirst: true})
	}
	h.Parallel(len(pols), 16, func(i int) { run(r, i, pols[i]) })
	r.Count("streams", int64(len(pols)))
	h.Exit(r.Finish(50))
}
