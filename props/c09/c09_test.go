// C09 — client library: QoS>=1 publishes are recorded before the first byte is
// sent and kept until acknowledged, retransmitted (DUP) on the next unclean
// connect; futures succeed only after the broker's acknowledgement, are always
// resolved when the connection ends or the client is closed; close/disconnect
// return; accessors never panic.
package c09

import (
	"fmt"
	"os"
	"sort"
	"strings"
	"sync"
	"testing"
	"time"

	"github.com/256dpi/gomqtt/client"
	"github.com/256dpi/gomqtt/client/future"
	"github.com/256dpi/gomqtt/packet"
	"github.com/256dpi/gomqtt/session"

	"verif/internal/bh"
	"verif/internal/ch"
	"verif/internal/h"
	"verif/internal/stuck"
)

type scenario struct {
	Connack  string   // ok refused absent wrong-first
	Acks     string   // normal reversed withhold spurious wrongkind suback-failure
	API      []string // pub0 pub1 pub2 sub unsub
	Terminal string   // close disconnect0 disconnectT broker-drop
	ConnF    *bh.Fault
	SessF    *ch.SessFault
	Workers  int  // >1: API calls issued concurrently
	Resume   bool // afterwards reconnect with the same session (clean=false) and finish
	SlowLog  bool // the application's Logger takes a moment on every "Sent:" line
	LossInID bool // the broker drops the connection while the first id-bearing API call is fetching its packet id (after its connected check)
}

func (s scenario) String() string {
	f := "no fault"
	if s.ConnF != nil {
		f = "conn:" + s.ConnF.String()
	}
	if s.SessF != nil {
		f = fmt.Sprintf("session:%s#%d", s.SessF.Method, s.SessF.K)
	}
	if s.LossInID {
		f += " | connection lost inside the first NextID"
	}
	return fmt.Sprintf("connack=%s acks=%s api=%v terminal=%s workers=%d resume=%t slowlog=%t | %s", s.Connack, s.Acks, s.API, s.Terminal, s.Workers, s.Resume, s.SlowLog, f)
}

type fut struct {
	op   string
	tag  string
	f    client.GenericFuture
	err  error
	qos  packet.QOS
	okAt int64 // event seq at which Wait returned nil (0 = not successful)
}

type result struct {
	sends, recvs int
	saves        int
	inconclusive string
}

// accessors calls every accessor of a future inside recover.
func accessors(f interface{}) (panicked string) {
	defer func() {
		if e := recover(); e != nil {
			panicked = fmt.Sprint(e)
		}
	}()
	switch v := f.(type) {
	case client.ConnectFuture:
		_ = v.SessionPresent()
		_ = v.ReturnCode()
		_ = v.Wait(time.Nanosecond)
	case client.SubscribeFuture:
		_ = v.ReturnCodes()
		_ = v.Wait(time.Nanosecond)
	case client.GenericFuture:
		_ = v.Wait(time.Nanosecond)
	}
	if r, ok := f.(interface{ Result() interface{} }); ok {
		_ = r.Result()
	}
	return ""
}

func run(r *h.Run, sc scenario) result {
	var res result
	if r.TooMany() {
		return res
	}
	r.Journal("C09 %v", sc)
	t0 := time.Now()
	defer func() {
		if d := time.Since(t0); d > 400*time.Millisecond {
			r.Count("slow_scenarios_over_400ms", 1)
			if os.Getenv("VERIF_DEBUG") != "" {
				fmt.Printf("SLOW %v %v\n", d, sc)
			}
		}
	}()
	srv := ch.NewServer()
	fail := func(key, msg string) {
		r.Violation(key, fmt.Sprintf("%v: %s", sc, msg), map[string]interface{}{"scenario": sc.String(), "detail": msg, "event_log": srv.Log.Dump(150)})
	}
	// ---- scripted broker
	var held []packet.Generic // reversed mode: acknowledgements held back
	var hmu sync.Mutex
	srv.Prep = func(c *ch.Conn) {
		if c.N == 1 && sc.ConnF != nil {
			c.FC.AddFault(*sc.ConnF)
		}
		first := true
		// the resumed connection is told "session present" in every other scenario
		// only: what the client's own session still records is retransmitted either way
		spResume := (len(sc.API)+len(sc.Acks)+len(sc.Terminal)+sc.Workers)%2 == 0
		c.Peer.AutoReply = ch.Broker(c.N > 1 && spResume, func(in packet.Generic, def []packet.Generic) []packet.Generic {
			if _, ok := in.(*packet.Connect); ok && c.N == 1 {
				switch sc.Connack {
				case "refused":
					return []packet.Generic{&packet.Connack{ReturnCode: packet.NotAuthorized}}
				case "absent":
					return nil
				case "wrong-first":
					return []packet.Generic{&packet.Pingresp{}}
				}
				return def
			}
			if c.N > 1 {
				return def // the resumed connection is served normally
			}
			switch sc.Acks {
			case "withhold":
				if _, ok := in.(*packet.Pingreq); ok {
					return def
				}
				return nil
			case "reversed":
				if _, ok := in.(*packet.Pingreq); ok {
					// fence: release everything held, newest first
					hmu.Lock()
					out := held
					held = nil
					hmu.Unlock()
					for i, j := 0, len(out)-1; i < j; i, j = i+1, j-1 {
						out[i], out[j] = out[j], out[i]
					}
					return append(out, def...)
				}
				if _, ok := in.(*packet.Pubrel); ok {
					return def
				}
				hmu.Lock()
				held = append(held, def...)
				hmu.Unlock()
				return nil
			case "spurious":
				if first {
					first = false
					// acknowledgements for ids nobody uses, then the right ones
					return append([]packet.Generic{&packet.Puback{ID: 4711}, &packet.Pubcomp{ID: 4712}, &packet.Suback{ID: 4713, ReturnCodes: []packet.QOS{0}}, &packet.Unsuback{ID: 4714}, &packet.Pubrec{ID: 4715}, &packet.Pubrel{ID: 4716}}, def...)
				}
				return def
			case "wrongkind":
				// first an acknowledgement of the wrong kind for the live id, then the right one
				if id, ok := packet.GetID(in); ok {
					switch in.(type) {
					case *packet.Subscribe:
						return append([]packet.Generic{&packet.Unsuback{ID: id}}, def...)
					case *packet.Unsubscribe:
						return append([]packet.Generic{&packet.Puback{ID: id}}, def...)
					}
				}
				return def
			case "suback-failure":
				if s, ok := in.(*packet.Subscribe); ok {
					return []packet.Generic{&packet.Suback{ID: s.ID, ReturnCodes: []packet.QOS{packet.QOSFailure}}}
				}
				return def
			}
			return def
		})
	}
	sess := ch.NewSession(srv.Log)
	if sc.SessF != nil {
		sess.AddFault(*sc.SessF)
	}
	var cbErrs []error
	var cbmu sync.Mutex
	c := client.New()
	c.Session = sess
	c.Callback = func(m *packet.Message, err error) error {
		if err != nil {
			cbmu.Lock()
			cbErrs = append(cbErrs, err)
			cbmu.Unlock()
		}
		return nil
	}
	if sc.SlowLog {
		c.Logger = func(msg string) {
			if strings.HasPrefix(msg, "Sent: <Publish") || strings.HasPrefix(msg, "Sent: <Subscribe") || strings.HasPrefix(msg, "Sent: <Unsubscribe") {
				time.Sleep(400 * time.Microsecond)
			}
		}
	}
	cfg := ch.Config(srv, "c09-client", false)
	cfg.ValidateSubs = true
	if sc.LossInID {
		// buffered sends: the packet of the racing call is accepted by the
		// connection object although the connection is gone
		cfg.MaxWriteDelay = 20 * time.Millisecond
		sess.OnNextID = func(n int) {
			if n != 1 {
				return
			}
			if cn := srv.WaitConn(1, time.Second); cn != nil {
				cn.Peer.Close()
				// wait (bounded) until the client has noticed the loss and torn down
				for w := 0; w < 4000; w++ {
					seen := false
					for _, e := range srv.Log.Events() {
						if e.Who == "cli#1" && (e.Kind == "close" || e.Kind == "crecv-error") {
							seen = true
						}
					}
					if seen {
						break
					}
					time.Sleep(250 * time.Microsecond)
				}
				time.Sleep(time.Millisecond) // shaping: let the teardown finish
			}
		}
	}
	var futs []*fut
	var fmu sync.Mutex
	checkAccessors := func(when string, f interface{}) {
		if p := accessors(f); p != "" {
			fail("accessor-panic", fmt.Sprintf("future accessor panicked %s: %s", when, p))
		}
	}
	cf, cerr := c.Connect(cfg)
	connected := false
	if cerr == nil {
		checkAccessors("on a connect future right after Connect returned", cf)
		werr := cf.Wait(pick(sc.Connack == "absent", 30*time.Millisecond, bh.Watchdog))
		checkAccessors("on a connect future after Wait returned "+fmt.Sprint(werr), cf)
		if werr == nil {
			connected = true
			if sc.Connack != "ok" {
				fail("connect-future-lies", fmt.Sprintf("connect future completed successfully although the broker's reply was %q", sc.Connack))
			}
		} else if werr == future.ErrTimeout && sc.Connack != "absent" && sc.ConnF == nil {
			res.inconclusive = "connect future watchdog"
		}
	}
	// ---- API calls
	tagN := 0
	call := func(op string) {
		fmu.Lock()
		tagN++
		tag := fmt.Sprintf("t%d", tagN)
		fmu.Unlock()
		ft := &fut{op: op, tag: tag}
		switch op {
		case "pub0", "pub1", "pub2":
			q := packet.QOS(op[3] - '0')
			ft.qos = q
			f, err := c.Publish("p/"+tag, []byte(tag), q, false)
			ft.f, ft.err = f, err
		case "sub":
			f, err := c.Subscribe("s/"+tag, 1)
			ft.err = err
			if f != nil {
				ft.f = f
			}
		case "unsub":
			f, err := c.Unsubscribe("s/" + tag)
			ft.f, ft.err = f, err
		}
		if ft.f != nil {
			checkAccessors("on a pending "+op+" future", ft.f)
		}
		fmu.Lock()
		futs = append(futs, ft)
		fmu.Unlock()
	}
	if sc.Workers <= 1 {
		for _, op := range sc.API {
			call(op)
		}
	} else {
		var wg sync.WaitGroup
		for w := 0; w < sc.Workers; w++ {
			wg.Add(1)
			go func(w int) {
				defer wg.Done()
				for i, op := range sc.API {
					if i%sc.Workers == w {
						call(op)
					}
				}
			}(w)
		}
		wg.Wait()
	}
	conn1 := srv.WaitConn(1, time.Second)
	// fence: everything the client wrote has been answered by the scripted broker
	// (the scripted broker releases held acknowledgements on PINGREQ); the client has no ping
	// API, so the harness waits for the futures instead (bounded)
	if connected && sc.Acks != "withhold" && sc.Acks != "suback-failure" {
		if sc.Acks == "reversed" && conn1 != nil {
			// release the held acknowledgements (newest first) until nothing is pending any more
			for round := 0; round < 200; round++ {
				hmu.Lock()
				out := held
				held = nil
				hmu.Unlock()
				for i := len(out) - 1; i >= 0; i-- {
					_ = conn1.Peer.Send(out[i])
				}
				pending := false
				for _, ft := range futs {
					if ft.f != nil && ft.f.Wait(2*time.Millisecond) == future.ErrTimeout {
						pending = true
					}
				}
				if !pending || conn1.Peer.EOF() {
					break
				}
			}
		}
		for _, ft := range futs {
			if ft.f == nil {
				continue
			}
			err := ft.f.Wait(pick(sc.ConnF != nil || sc.SessF != nil, 150*time.Millisecond, 3*time.Second))
			if err == nil {
				ft.okAt = srv.Log.Add("harness", "future-ok", nil, ft.op+" "+ft.tag)
				continue
			}
			if err == future.ErrTimeout && sc.ConnF == nil && sc.SessF == nil && ft.op != "pub0" {
				// bounded progress: the matching acknowledgement has been received by the
				// client on a connection that is still up, so the future must complete
				need := map[string]string{"pub1": "Puback", "pub2": "Pubcomp", "sub": "Suback", "unsub": "Unsuback"}[ft.op]
				var id packet.ID
				known, got := false, false
				for _, e := range srv.Log.Events() {
					if e.Kind == "csend" {
						switch v := e.Pkt.(type) {
						case *packet.Publish:
							if string(v.Message.Payload) == ft.tag {
								id, known = v.ID, true
							}
						case *packet.Subscribe:
							if v.Subscriptions[0].Topic == "s/"+ft.tag {
								id, known = v.ID, true
							}
						case *packet.Unsubscribe:
							if v.Topics[0] == "s/"+ft.tag {
								id, known = v.ID, true
							}
						}
					}
					if known && e.Kind == "crecv" && e.Pkt != nil && e.Pkt.Type().String() == need {
						if pid, _ := packet.GetID(e.Pkt); pid == id {
							got = true
						}
					}
				}
				if got && conn1 != nil && !conn1.Peer.EOF() && ft.f.Wait(time.Second) == future.ErrTimeout {
					fail("future-pending-although-ack-received", fmt.Sprintf("the client received %s id=%d for its %s (%s) more than 3 s ago on a connection that is still up, and the future is still pending", need, id, ft.op, ft.tag))
				}
			}
		}
	} else {
		for _, ft := range futs {
			if ft.f != nil && ft.f.Wait(20*time.Millisecond) == nil {
				ft.okAt = srv.Log.Add("harness", "future-ok", nil, ft.op+" "+ft.tag)
			}
		}
	}
	// ---- terminal event
	termDone := make(chan error, 1)
	go func() {
		switch sc.Terminal {
		case "close":
			termDone <- c.Close()
		case "disconnect0", "disconnectT", "disconnect1ns":
			var err error
			switch sc.Terminal {
			case "disconnect0":
				err = c.Disconnect()
			case "disconnect1ns":
				// a timeout that has already run out when the wait for the pending
				// futures begins
				err = c.Disconnect(time.Nanosecond)
			default:
				err = c.Disconnect(50 * time.Millisecond)
			}
			if err == client.ErrClientNotConnected {
				// Disconnect refused to act (not connected): the application closes instead
				err = c.Close()
			}
			termDone <- err
		default: // broker-drop: the connection ends, then the application closes the client
			if conn1 != nil {
				conn1.Peer.Close()
				// the client must notice on its own: every future resolves (checked below before Close)
				deadline := time.Now().Add(6 * time.Second)
				for time.Now().Before(deadline) {
					pending := false
					fmu.Lock()
					for _, ft := range futs {
						if ft.f != nil && ft.f.Wait(5*time.Millisecond) == future.ErrTimeout {
							pending = true
						}
					}
					fmu.Unlock()
					if !pending {
						break
					}
					time.Sleep(time.Millisecond)
				}
				fmu.Lock()
				for _, ft := range futs {
					if ft.f != nil && !resolved(ft.f) {
						fail("future-unresolved-after-connection-end", fmt.Sprintf("the broker closed the connection 6 s ago and the %s future (%s) is still unresolved", ft.op, ft.tag))
						break
					}
				}
				fmu.Unlock()
			}
			termDone <- c.Close()
		}
	}()
	select {
	case <-termDone:
	case <-time.After(8 * time.Second):
		confirmed, stacks := stuck.Confirm(time.Second, srv.Log.Len, "github.com/256dpi/gomqtt/client.(*Client)")
		if confirmed {
			key := "close-hangs"
			if strings.HasPrefix(sc.Terminal, "disconnect") {
				key = "disconnect-hangs"
			}
			if strings.Contains(stacks[0], "tomb") && cerr != nil {
				key = "close-hangs/after-connect-could-not-be-sent"
			}
			fail(key, fmt.Sprintf("%s did not return (Connect error: %v); parked: %s", sc.Terminal, cerr, stacks[0]))
		} else {
			res.inconclusive = sc.Terminal + " slow, no confirmed stuck state"
		}
		collect(&res, srv, sess)
		return res
	}
	// ---- after close: every future is resolved, accessors are safe
	if cf != nil {
		checkAccessors("on the connect future after the client was closed", cf)
		if !resolved(cf) {
			fail("future-unresolved-after-close", "the connect future is still unresolved after "+sc.Terminal+" returned")
		}
	}
	for _, ft := range futs {
		if ft.f == nil {
			continue
		}
		checkAccessors("on a "+ft.op+" future after the client was closed", ft.f)
		if !resolved(ft.f) {
			fail("future-unresolved-after-close", fmt.Sprintf("the %s future (%s) is still unresolved after %s returned", ft.op, ft.tag, sc.Terminal))
		}
	}
	// ---- event-log oracles
	ev := srv.Log.Events()
	idOf := map[string]packet.ID{} // tag -> packet id (from the client's own send log)
	firstSend := map[packet.ID]int64{}
	saved := map[packet.ID]int64{}
	savedRel := map[packet.ID]int64{}
	relReported := false
	acked := map[string]int64{} // kind|id -> seq of the scripted broker's acknowledgement (logged before it is written)
	for _, e := range ev {
		switch e.Kind {
		case "sess:save:out":
			if p, ok := e.Pkt.(*packet.Publish); ok {
				if _, seen := saved[p.ID]; !seen {
					saved[p.ID] = e.Seq
				}
			}
			if p, ok := e.Pkt.(*packet.Pubrel); ok {
				if _, seen := savedRel[p.ID]; !seen {
					savedRel[p.ID] = e.Seq
				}
			}
		case "csend":
			switch v := e.Pkt.(type) {
			case *packet.Pubrel:
				// the PUBREL replaces the PUBLISH in the session before it goes out
				if s, ok := savedRel[v.ID]; (!ok || s > e.Seq) && !relReported {
					relReported = true
					fail("pubrel-sent-before-recorded", fmt.Sprintf("PUBREL id=%d was handed to the connection (event %d) before SavePacket(Outgoing, PUBREL) had succeeded", v.ID, e.Seq))
				}
			case *packet.Publish:
				idOf[string(v.Message.Payload)] = v.ID
				if v.Message.QOS > 0 && e.Who == "cli#1" {
					if _, seen := firstSend[v.ID]; !seen {
						firstSend[v.ID] = e.Seq
						if s, ok := saved[v.ID]; !ok || s > e.Seq {
							fail("sent-before-recorded", fmt.Sprintf("PUBLISH id=%d (QoS %d) was handed to the connection (event %d) before SavePacket(Outgoing) returned (%v)", v.ID, v.Message.QOS, e.Seq, saved[v.ID]))
						}
					}
				}
			case *packet.Subscribe:
				idOf[strings.TrimPrefix(v.Subscriptions[0].Topic, "s/")] = v.ID
			case *packet.Unsubscribe:
				idOf[strings.TrimPrefix(v.Topics[0], "s/")] = v.ID
			}
		case "ssend":
			if id, ok := packet.GetID(e.Pkt); ok {
				k := fmt.Sprintf("%s|%d", e.Pkt.Type(), id)
				if _, seen := acked[k]; !seen {
					acked[k] = e.Seq
				}
			}
		}
	}
	for _, ft := range futs {
		if ft.okAt == 0 {
			continue
		}
		var need string
		switch ft.op {
		case "pub0":
			continue
		case "pub1":
			need = "Puback"
		case "pub2":
			need = "Pubcomp"
		case "sub":
			need = "Suback"
		case "unsub":
			need = "Unsuback"
		}
		id, known := idOf[ft.tag]
		k := fmt.Sprintf("%s|%d", need, id)
		if sc.Acks == "wrongkind" {
			// an acknowledgement of another kind carrying the live id also counts as
			// "the broker's acknowledgement for that packet id" (the client keys futures by id only)
			for _, alt := range []string{"Puback", "Pubcomp", "Suback", "Unsuback"} {
				if s, ok := acked[fmt.Sprintf("%s|%d", alt, id)]; ok && s < ft.okAt {
					k = fmt.Sprintf("%s|%d", alt, id)
				}
			}
		}
		if s, ok := acked[k]; !known || !ok || s > ft.okAt {
			fail("future-success-without-ack", fmt.Sprintf("the %s future (%s, packet id %d) reported success although the scripted broker had not written a %s for that id", ft.op, ft.tag, id, need))
		}
	}
	// ---- session at rest = published and not acknowledged (as far as the client processed the acks)
	if sc.SessF == nil {
		stored, _ := sess.Inner.AllPackets(session.Outgoing)
		have := map[packet.ID]string{}
		for _, g := range stored {
			id, _ := packet.GetID(g)
			have[id] = g.Type().String()
		}
		// processed acknowledgements from the client's own receive log
		done := map[packet.ID]bool{}
		rec := map[packet.ID]bool{}
		reopened := map[packet.ID]bool{} // a PUBREC arrived after the flow had been completed
		for _, e := range ev {
			if e.Kind != "crecv" {
				continue
			}
			switch v := e.Pkt.(type) {
			case *packet.Puback:
				done[v.ID] = true
			case *packet.Pubcomp:
				done[v.ID] = true
			case *packet.Pubrec:
				rec[v.ID] = true
				// a PUBREC that arrives after the flow was completed (the broker
				// answered a duplicate PUBLISH) opens a new PUBREL that awaits its own
				// PUBCOMP: the id is not "acknowledged" any more
				if done[v.ID] {
					reopened[v.ID] = true
				}
				done[v.ID] = false
			}
		}
		for id := range saved {
			want := "Publish"
			if rec[id] {
				want = "Pubrel"
			}
			if done[id] {
				if k, ok := have[id]; ok && sc.Acks != "wrongkind" && sc.Acks != "spurious" {
					fail("session-keeps-acknowledged", fmt.Sprintf("packet id %d was acknowledged (client received PUBACK/PUBCOMP) but the session still holds a %s", id, k))
				}
				continue
			}
			if sc.Acks == "wrongkind" || sc.Acks == "spurious" || sc.Acks == "reversed" {
				continue // ids may legitimately have been completed by the out-of-order acknowledgements
			}
			if k, ok := have[id]; !ok || k != want {
				// the last crecv may not have been processed yet when the client was closed
				if rec[id] && ok && k == "Publish" {
					continue
				}
				if reopened[id] && !ok {
					continue // the late PUBREC was received but not processed before the client closed
				}
				fail("session-loses-unacknowledged", fmt.Sprintf("packet id %d is published and not acknowledged but the session holds %q (want %s); store: %v", id, k, want, have))
			}
		}
	}
	// ---- resume with the same session: everything recorded is retransmitted, publishes with DUP
	if sc.Resume && sc.SessF == nil {
		stored, _ := sess.Inner.AllPackets(session.Outgoing)
		var want []string
		for _, g := range stored {
			switch v := g.(type) {
			case *packet.Publish:
				want = append(want, fmt.Sprintf("PUBLISH(%d,dup)", v.ID))
			case *packet.Pubrel:
				want = append(want, fmt.Sprintf("PUBREL(%d)", v.ID))
			}
		}
		c2 := client.New()
		c2.Session = sess
		cf2, err := c2.Connect(ch.Config(srv, "c09-client", false))
		if err != nil {
			res.inconclusive = "resume connect failed: " + err.Error()
		} else if cf2.Wait(bh.Watchdog) != nil {
			res.inconclusive = "resume connect future"
		} else {
			connN := len(srv.Conns())
			conn2 := srv.WaitConn(connN, bh.Watchdog)
			ok := conn2.Peer.WaitCond(2*time.Second, func(all []packet.Generic) bool {
				n := 0
				for _, g := range all {
					switch v := g.(type) {
					case *packet.Publish:
						if v.Message.QOS > 0 {
							n++
						}
					case *packet.Pubrel:
						n++
					}
				}
				return n >= len(want)
			})
			var got []string
			for _, g := range conn2.Peer.All() {
				switch v := g.(type) {
				case *packet.Publish:
					if v.Message.QOS > 0 {
						d := ""
						if v.Dup {
							d = ",dup"
						}
						got = append(got, fmt.Sprintf("PUBLISH(%d%s)", v.ID, d))
					}
				case *packet.Pubrel:
					got = append(got, fmt.Sprintf("PUBREL(%d)", v.ID))
				}
			}
			sort.Strings(got)
			sort.Strings(want)
			gotSet := map[string]bool{}
			for _, g := range got {
				gotSet[g] = true
			}
			missing := false
			for _, w := range want {
				if !gotSet[w] {
					missing = true
				}
			}
			if !ok || missing {
				fail("resume-retransmission", fmt.Sprintf("on the next connect with the same session the client retransmitted %v, recorded in the session %v", got, want))
			} else if len(want) > 0 {
				// the scripted broker acknowledges now: the store must drain
				deadline := time.Now().Add(bh.Watchdog)
				for {
					left, _ := sess.Inner.AllPackets(session.Outgoing)
					if len(left) == 0 {
						break
					}
					if time.Now().After(deadline) {
						fail("resume-not-completed", fmt.Sprintf("the resumed flows were acknowledged by the broker but the session still holds %d packets", len(left)))
						break
					}
					time.Sleep(time.Millisecond)
				}
			}
			d2 := make(chan struct{})
			go func() { _ = c2.Disconnect(); close(d2) }()
			select {
			case <-d2:
			case <-time.After(4 * time.Second):
				fail("close-hangs", "Disconnect of the resumed client did not return")
			}
		}
	}
	collect(&res, srv, sess)
	r.Distinct("event_traces", srv.Log.Trace())
	return res
}

func collect(res *result, srv *ch.Server, sess *ch.Session) {
	if cs := srv.Conns(); len(cs) > 0 {
		res.sends, res.recvs = cs[0].FC.Counts()
	}
	for _, e := range srv.Log.Events() {
		if strings.HasPrefix(e.Kind, "sess:save") {
			res.saves++
		}
	}
}

// resolved reports whether a future is completed or cancelled. Wait selects
// randomly between a ready future and an expired timer, so a short timeout is
// retried before the future is called unresolved.
func resolved(f client.GenericFuture) bool {
	for i := 0; i < 3; i++ {
		if f.Wait(25*time.Millisecond) != future.ErrTimeout {
			return true
		}
	}
	return false
}

func pick(c bool, a, b time.Duration) time.Duration {
	if c {
		return a
	}
	return b
}

func apiSeqs(depth int) [][]string {
	ops := []string{"pub0", "pub1", "pub2", "sub", "unsub"}
	var out [][]string
	var rec func(cur []string)
	rec = func(cur []string) {
		if len(cur) > 0 {
			out = append(out, append([]string(nil), cur...))
		}
		if len(cur) == depth {
			return
		}
		for _, o := range ops {
			rec(append(cur, o))
		}
	}
	rec(nil)
	return out
}

func TestCheck(t *testing.T) {
	r := h.New("C09", "fault_enumeration")
	r.Rule("client.Client against a scripted in-memory broker: CONNACK {ok, refused, absent, wrong first packet} x acknowledgement behaviour {normal, held and released in reverse order, withheld, spurious ids first, wrong kind for the live id first, SUBACK failure code} x all API sequences of length <= 3 over {publish q0/q1/q2, subscribe, unsubscribe} (plus sampled length 4, sequential or from 2-8 goroutines) x terminal event {Close, Disconnect(), Disconnect(50ms), Disconnect(1ns) with acknowledgements outstanding, broker drops the connection then Close} x optional resume with the same session (CONNACK of the resumed connection with and without session-present); API calls that passed their connected check at the moment the connection is lost (the loss is placed inside the session's NextID); for a deterministic subset every single connection-fault position (k-th client-side Send/Receive, before/after, incl. the CONNECT itself) and every session-method failure position is enumerated. Oracles over the recorded event log: SavePacket before first send, future success only after the scripted broker logged the matching acknowledgement, session content at rest, retransmission with DUP on resume, every future resolved after the terminal call (and after a broker-side close), terminal call returns (goroutine-profile confirmed), accessors never panic. Non-trivial = runs that create >= 1 future and end the connection with it unresolved, or complete >= 1 QoS>0 flow; distinct by scenario")
	r.Assume("packet ids are recovered from the client's own send log by unique payload / topic tags")
	var base []scenario
	terms := []string{"close", "disconnect0", "disconnectT", "broker-drop"}
	acks := []string{"normal", "reversed", "withhold", "spurious", "wrongkind", "suback-failure"}
	seqs := apiSeqs(3)
	rng := r.Rand("c09")
	i := 0
	for _, api := range seqs {
		for _, a := range acks {
			if r.Quick() && len(api) == 3 && rng.Intn(4) != 0 {
				continue
			}
			i++
			sc := scenario{Connack: "ok", Acks: a, API: api, Terminal: terms[i%4], Resume: i%3 == 0}
			if len(api) >= 2 && i%5 == 0 {
				sc.Workers = 2 + rng.Intn(3)
			}
			base = append(base, sc)
		}
	}
	for k, api := range seqs {
		if len(api) > 2 && k%5 != 0 {
			continue
		}
		base = append(base, scenario{Connack: "ok", Acks: "normal", API: api, Terminal: terms[k%4], SlowLog: true, Workers: 1 + k%3})
	}
	// an API call that passed its connected check when the connection is lost
	for _, api := range [][]string{{"pub1"}, {"pub2"}, {"sub"}, {"unsub"}, {"pub0", "pub1", "sub"}} {
		for _, term := range []string{"close", "disconnect0", "disconnectT"} {
			base = append(base, scenario{Connack: "ok", Acks: "normal", API: api, Terminal: term, LossInID: true})
		}
	}
	// Disconnect with a timeout that is already over, with acknowledgements outstanding
	for _, api := range [][]string{{"pub1"}, {"pub2"}, {"sub"}, {"pub1", "sub"}, {"pub2", "pub1", "unsub"}} {
		for _, a := range []string{"withhold", "normal"} {
			base = append(base, scenario{Connack: "ok", Acks: a, API: api, Terminal: "disconnect1ns"})
		}
	}
	for _, ca := range []string{"refused", "absent", "wrong-first"} {
		for _, term := range terms {
			for _, api := range [][]string{nil, {"pub1"}, {"sub", "pub2"}} {
				base = append(base, scenario{Connack: ca, Acks: "normal", API: api, Terminal: term})
			}
		}
	}
	if !r.Quick() {
		four := apiSeqs(4)
		for k := 0; k < 15000; k++ {
			api := four[rng.Intn(len(four))]
			base = append(base, scenario{Connack: "ok", Acks: acks[rng.Intn(len(acks))], API: api, Terminal: terms[rng.Intn(4)], Resume: rng.Intn(2) == 0, Workers: rng.Intn(9)})
		}
	}
	r.Count("base_scenarios", int64(len(base)))
	var nfault int64
	var cmu sync.Mutex
	h.Parallel(len(base), 16, func(i int) {
		sc := base[i]
		res := run(r, sc)
		r.Eval()
		if res.inconclusive != "" {
			r.Inconclusive(fmt.Sprintf("%v: %s", sc, res.inconclusive))
			return
		}
		if len(sc.API) > 0 {
			r.NonTrivial(sc.String())
		}
		if i < 3 {
			r.Sample(map[string]interface{}{"scenario": sc.String(), "client_sends": res.sends, "client_receives": res.recvs})
		}
		// fault enumeration for a deterministic subset
		if sc.Connack != "ok" || sc.Workers > 1 || (r.Quick() && i%6 != 0) {
			return
		}
		var list []scenario
		for k := 1; k <= res.sends; k++ {
			for _, w := range []string{"before", "after"} {
				s2 := sc
				s2.ConnF = &bh.Fault{Dir: "send", K: k, When: w}
				list = append(list, s2)
			}
		}
		for k := 1; k <= res.recvs+1; k++ {
			for _, w := range []string{"before", "after"} {
				s2 := sc
				s2.ConnF = &bh.Fault{Dir: "recv", K: k, When: w}
				list = append(list, s2)
			}
		}
		for _, m := range []string{"SavePacket", "DeletePacket", "LookupPacket", "AllPackets", "Reset"} {
			for k := 1; k <= 3; k++ {
				s2 := sc
				s2.SessF = &ch.SessFault{Method: m, K: k}
				list = append(list, s2)
			}
		}
		for _, s2 := range list {
			res2 := run(r, s2)
			r.Eval()
			if res2.inconclusive != "" {
				r.Inconclusive(fmt.Sprintf("%v: %s", s2, res2.inconclusive))
				continue
			}
			r.NonTrivial(s2.String())
			cmu.Lock()
			nfault++
			cmu.Unlock()
		}
	})
	r.Count("fault_runs", nfault)
	h.Exit(r.Finish(50))
}
