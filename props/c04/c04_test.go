// C04 — topic matching follows MQTT 4.7 in both directions and the directions agree.
// Monitor: differential against ref.Matches over a bounded-exhaustive universe
// (single pairs, pairs of entries, whole universe in one tree) and random sets.
package c04

import (
	"fmt"
	"sort"
	"strings"
	"sync/atomic"
	"testing"

	"github.com/256dpi/gomqtt/topic"

	"verif/internal/h"
	"verif/internal/ref"
)

func seqs(alpha []string, minDepth, maxDepth int) []string {
	var out []string
	var rec func(prefix []string, d int)
	rec = func(prefix []string, d int) {
		if d >= minDepth {
			out = append(out, strings.Join(prefix, "/"))
		}
		if d == maxDepth {
			return
		}
		for _, a := range alpha {
			rec(append(append([]string{}, prefix...), a), d+1)
		}
	}
	for _, a := range alpha {
		rec([]string{a}, 1)
	}
	return out
}

func universe(depth int) (names, filters []string) {
	for _, n := range seqs([]string{"a", "b", ""}, 1, depth) {
		if n != "" {
			names = append(names, n)
		}
	}
	for _, f := range seqs([]string{"a", "b", "", "+"}, 1, depth) {
		if f != "" {
			filters = append(filters, f)
		}
	}
	filters = append(filters, "#")
	if depth > 1 {
		for _, p := range seqs([]string{"a", "b", "", "+"}, 1, depth-1) {
			filters = append(filters, p+"/#")
		}
	}
	return
}

func nontrivial(f, n string) bool {
	return strings.ContainsAny(f, "+#") || strings.Contains("/"+f+"/", "//") || strings.Contains("/"+n+"/", "//")
}

func setOf(vs []interface{}) (map[interface{}]int, bool) {
	m := map[interface{}]int{}
	dup := false
	for _, v := range vs {
		m[v]++
		if m[v] > 1 {
			dup = true
		}
	}
	return m, dup
}

func sameSet(got map[interface{}]int, want map[interface{}]bool) bool {
	if len(got) != len(want) {
		return false
	}
	for k := range want {
		if got[k] == 0 {
			return false
		}
	}
	return true
}

type entry struct {
	topic string
	value interface{}
}

var evals int64

// checkTree stores entries (filters) and queries with names using Match, or
// stores entries (names) and queries with filters using Search.
func checkTree(r *h.Run, dir string, entries []entry, queries []string, label string) {
	checkTreeAfter(r, dir, entries, nil, queries, label)
}

// checkTreeAfter is checkTree on a tree with a past: the entries in gone were
// stored as well and have been removed again (Remove, or Empty when no kept
// entry shares the topic) before the queries. What is stored is `entries`.
func checkTreeAfter(r *h.Run, dir string, entries, gone []entry, queries []string, label string) {
	t := topic.NewStandardTree()
	for i, e := range gone {
		if i%2 == 0 {
			t.Add(e.topic, e.value)
		}
	}
	for _, e := range entries {
		t.Add(e.topic, e.value)
	}
	for i, e := range gone {
		if i%2 == 1 {
			t.Add(e.topic, e.value)
		}
	}
	for i, e := range gone {
		shared := false
		for _, k := range entries {
			if k.topic == e.topic {
				shared = true
			}
		}
		if i%3 == 2 && !shared {
			t.Empty(e.topic)
		} else {
			t.Remove(e.topic, e.value)
		}
	}
	// results are held across the next query and then overwritten: a result that
	// shares memory with the tree (or with another result) shows up as a changed
	// held result or as a wrong answer to a later query
	var held, heldCopy []interface{}
	var heldQ string
	for _, q := range queries {
		atomic.AddInt64(&evals, 1)
		want := map[interface{}]bool{}
		for _, e := range entries {
			var m bool
			if dir == "match" {
				m = ref.Matches(e.topic, q)
			} else {
				m = ref.Matches(q, e.topic)
			}
			if m {
				want[e.value] = true
			}
		}
		var got []interface{}
		var first interface{}
		if dir == "match" {
			got = t.Match(q)
			first = t.MatchFirst(q)
		} else {
			got = t.Search(q)
			first = t.SearchFirst(q)
		}
		if held != nil {
			for i := range held {
				if held[i] != heldCopy[i] {
					r.Violation(dir+"/result-changed", fmt.Sprintf("%s: the result of %s(%q) was %v and became %v after %s(%q)", label, dir, heldQ, heldCopy, held, dir, q),
						map[string]interface{}{"direction": dir, "first_query": heldQ, "second_query": q})
					break
				}
			}
			for i := range held {
				held[i] = -999 // the caller owns the result
			}
		}
		held, heldCopy, heldQ = got, append([]interface{}(nil), got...), q
		gs, dup := setOf(got)
		if !sameSet(gs, want) || dup || (first == nil) != (len(want) == 0) || (first != nil && !want[first]) {
			kind := "extra"
			if len(gs) < len(want) {
				kind = "missing"
			} else if dup && sameSet(gs, want) {
				kind = "duplicate"
			} else if sameSet(gs, want) {
				kind = "first"
			}
			key := fmt.Sprintf("%s/%s", dir, kind)
			ws := []string{}
			for _, e := range entries {
				ws = append(ws, fmt.Sprintf("%q=>%v", e.topic, e.value))
			}
			sort.Strings(ws)
			r.Violation(key, fmt.Sprintf("%s: stored %v, %s(%q) returned %v (first=%v), reference says %v", label, ws, dir, q, got, first, keys(want)),
				map[string]interface{}{"direction": dir, "stored": ws, "query": q, "returned": fmt.Sprint(got), "first": fmt.Sprint(first), "expected": fmt.Sprint(keys(want))})
		}
	}
}

func keys(m map[interface{}]bool) []string {
	var out []string
	for k := range m {
		out = append(out, fmt.Sprint(k))
	}
	sort.Strings(out)
	return out
}

func TestCheck(t *testing.T) {
	r := h.New("C04", "exploration")
	depth := r.Pick(3, 4)
	names, filters := universe(depth)
	r.Rule(fmt.Sprintf("exhaustive: names = all level sequences over {a,b,empty} of depth 1..%d (%d), filters = all sequences over {a,b,empty,+} of depth 1..%d plus every shorter prefix followed by '#' (%d); every (filter,name) pair alone in both directions, every pair of filters x every name and every pair of names x every filter (second entry also with the same value: de-duplication), the whole universe in one tree; a third of the pairs again with one of the two entries removed before the queries; plus random sets (also with level-prefixes, extensions and fresh entries stored and removed again) over alphabets up to 8 symbols incl. multi-byte UTF-8, depth <= 12. Non-trivial/distinct = single (filter,name) pairs containing a wildcard or an empty level (pair-of-entries cases are counted in counters only)", depth, len(names), depth, len(filters)))
	r.Assume("internal/ref/topic.go Matches() is a faithful reading of MQTT 3.1.1 §4.7 without the '$' rule")
	r.Exhaustive()

	// (1) every single pair, both directions
	h.Parallel(len(filters), 16, func(i int) {
		f := filters[i]
		checkTree(r, "match", []entry{{f, 1}}, names, "single filter")
		for _, n := range names {
			if nontrivial(f, n) {
				r.NonTrivial(f + "|" + n)
			}
		}
	})
	h.Parallel(len(names), 16, func(i int) {
		checkTree(r, "search", []entry{{names[i], 1}}, filters, "single name")
	})
	r.Count("single_pairs", int64(len(filters)*len(names)))
	r.Sample(map[string]interface{}{"filter": filters[len(filters)/2], "name": names[len(names)/3], "reference_match": ref.Matches(filters[len(filters)/2], names[len(names)/3])})
	r.Sample(map[string]interface{}{"filter": "a/+", "name": "a", "reference_match": ref.Matches("a/+", "a")})
	r.Sample(map[string]interface{}{"filter": "a/#", "name": "a", "reference_match": ref.Matches("a/#", "a")})

	// (2) every pair of filters x every name; every pair of names x every filter
	var pairCases int64
	h.Parallel(len(filters), 16, func(i int) {
		for j := i + 1; j < len(filters); j++ {
			checkTree(r, "match", []entry{{filters[i], 1}, {filters[j], 2}}, names, "filter pair")
			if (i+j)%3 == 0 {
				checkTreeAfter(r, "match", []entry{{filters[i], 1}}, []entry{{filters[j], 2}}, names, "filter pair, second removed again")
				checkTreeAfter(r, "match", []entry{{filters[j], 2}}, []entry{{filters[i], 1}}, names, "filter pair, first removed again")
			}
			if (i+j)%5 == 0 {
				checkTree(r, "match", []entry{{filters[i], 7}, {filters[j], 7}}, names, "filter pair, same value")
			}
			atomic.AddInt64(&pairCases, 1)
		}
	})
	h.Parallel(len(names), 16, func(i int) {
		for j := i + 1; j < len(names); j++ {
			checkTree(r, "search", []entry{{names[i], 1}, {names[j], 2}}, filters, "name pair")
			if (i+j)%3 == 0 {
				checkTreeAfter(r, "search", []entry{{names[i], 1}}, []entry{{names[j], 2}}, filters, "name pair, second removed again")
				checkTreeAfter(r, "search", []entry{{names[j], 2}}, []entry{{names[i], 1}}, filters, "name pair, first removed again")
			}
			if (i+j)%5 == 0 {
				checkTree(r, "search", []entry{{names[i], 7}, {names[j], 7}}, filters, "name pair, same value")
			}
			atomic.AddInt64(&pairCases, 1)
		}
	})
	r.Count("entry_pairs", pairCases)

	// (3) whole universe in one tree
	var all []entry
	for i, f := range filters {
		all = append(all, entry{f, i})
	}
	checkTree(r, "match", all, names, "all filters")
	all = nil
	for i, n := range names {
		all = append(all, entry{n, i})
	}
	checkTree(r, "search", all, filters, "all names")

	// (4) random sets
	nr := r.Pick(3000, 400000)
	h.Parallel(nr, 16, func(i int) {
		rng := r.Rand(fmt.Sprintf("c04-rand-%d", i))
		alpha := []string{"a", "b", "", "é", "ab", "€x", "B", "0"}[:2+rng.Intn(7)]
		maxd := 1 + rng.Intn(12)
		mk := func(filter bool) string {
			for {
				d := 1 + rng.Intn(maxd)
				var segs []string
				for k := 0; k < d; k++ {
					if filter && rng.Intn(4) == 0 {
						segs = append(segs, "+")
					} else {
						segs = append(segs, alpha[rng.Intn(len(alpha))])
					}
				}
				if filter && rng.Intn(4) == 0 {
					if rng.Intn(3) == 0 {
						segs = append(segs[:len(segs)-1], "#")
					} else {
						segs = append(segs, "#")
					}
				}
				s := strings.Join(segs, "/")
				if s != "" {
					return s
				}
			}
		}
		ne := 1 + rng.Intn(12)
		var fs, ns []entry
		var qn, qf []string
		for k := 0; k < ne; k++ {
			fs = append(fs, entry{mk(true), rng.Intn(ne)})
			ns = append(ns, entry{mk(false), rng.Intn(ne)})
		}
		if i%3 == 0 {
			// several values under one filter / name (value lists with spare capacity)
			for k := 0; k < ne; k++ {
				for extra := 1; extra <= 1+rng.Intn(3); extra++ {
					fs = append(fs, entry{fs[k].topic, 1000*extra + k})
					ns = append(ns, entry{ns[k].topic, 1000*extra + k})
				}
			}
		}
		for k := 0; k < 24; k++ {
			qn = append(qn, mk(false))
			qf = append(qf, mk(true))
		}
		// also query with names derived from the stored filters (so matches are frequent)
		for _, e := range fs {
			qn = append(qn, strings.NewReplacer("+", alpha[rng.Intn(len(alpha))], "/#", "", "#", alpha[0]).Replace(e.topic))
		}
		for k := range qn {
			if qn[k] == "" {
				qn[k] = "a"
			}
		}
		for _, e := range ns {
			segs := strings.Split(e.topic, "/")
			segs[rng.Intn(len(segs))] = "+"
			qf = append(qf, strings.Join(segs, "/"))
		}
		checkTree(r, "match", fs, qn, "random filter set")
		checkTree(r, "search", ns, qf, "random name set")
		// the same sets in trees with a past: level-prefixes, extensions and
		// fresh entries that were stored and removed again
		past := func(kept []entry, filter bool) []entry {
			var gone []entry
			for _, e := range kept {
				switch rng.Intn(4) {
				case 0:
					if k := strings.LastIndex(e.topic, "/"); k > 0 {
						gone = append(gone, entry{e.topic[:k], 100 + rng.Intn(3)})
					}
				case 1:
					if !strings.HasSuffix(e.topic, "#") {
						gone = append(gone, entry{e.topic + "/" + alpha[rng.Intn(len(alpha))], 100 + rng.Intn(3)})
					}
				case 2:
					gone = append(gone, entry{mk(filter), 100 + rng.Intn(3)})
				case 3:
					gone = append(gone, entry{e.topic, 100 + rng.Intn(3)})
				}
			}
			return gone
		}
		checkTreeAfter(r, "match", fs, past(fs, true), qn, "random filter set with removed entries")
		checkTreeAfter(r, "search", ns, past(ns, false), qf, "random name set with removed entries")
		for k := 0; k < 4; k++ {
			if nontrivial(fs[0].topic, qn[k]) {
				r.NonTrivial(fs[0].topic + "|" + qn[k])
			}
		}
		if i < 2 {
			r.Sample(map[string]interface{}{"random_filter_set": fmt.Sprint(fs), "queries": qn[:4]})
		}
	})
	r.EvalN(int(atomic.LoadInt64(&evals)))
	h.Exit(r.Finish(500))
}
