// C08 — broker never loses an accepted QoS>=1 message for a persistent
// subscriber: store-before-send, kept until acknowledged, retransmitted after
// resume (PUBLISH with DUP / PUBREL), no second non-duplicate QoS 2 delivery,
// offline queueing, session-present, clean connect discards.
package c08

import (
	"fmt"
	"sort"
	"strings"
	"sync"
	"testing"
	"time"

	"github.com/256dpi/gomqtt/packet"
	"github.com/256dpi/gomqtt/session"

	"verif/internal/bh"
	"verif/internal/h"
	"verif/internal/ref"
	"verif/internal/wire"
)

type connFault struct {
	Conn int
	F    bh.Fault
}

type scenario struct {
	Window  int
	QoS     []packet.QOS // messages published while the subscriber is online (phase 1)
	Offline []packet.QOS // messages published while it is offline
	B1      string       // behaviour per actionable packet on connection 0: A ack, W withhold, D drop
	B2      string       // behaviour on connection 1 (resend phase)
	Clean2  bool         // connection 1 uses a clean session
	OwnPub  bool         // the subscriber also publishes QoS 2 messages under the packet ids 1..window+2
	Bystand bool         // another client holds a QoS 0 subscription to the same topics (clean session)
	Shrink  bool         // the backend's inflight window is lowered to 1 before the subscriber reconnects
	Fault   *connFault
}

func (s scenario) String() string {
	f := "no fault"
	if s.Fault != nil {
		f = fmt.Sprintf("conn%d:%v", s.Fault.Conn, s.Fault.F)
	}
	own := ""
	if s.OwnPub {
		own = " own-publishes"
	}
	if s.Bystand {
		own += " qos0-bystander"
	}
	if s.Shrink {
		own += " window-lowered-to-1-before-reconnect"
	}
	return fmt.Sprintf("window=%d online=%v offline=%v b1=%q b2=%q clean2=%t%s | %s", s.Window, s.QoS, s.Offline, s.B1, s.B2, s.Clean2, own, f)
}

type outEntry struct {
	kind    string // "publish" | "pubrel"
	payload string
}

type result struct {
	sends, recvs []int
	inconclusive string
}

func run(r *h.Run, sc scenario) result {
	var res result
	if r.TooMany() {
		return res
	}
	b := bh.NewBroker()
	b.Mon.Inner.ClientInflightMessages = sc.Window
	defer b.Shutdown()
	fail := func(key, msg string) {
		r.Violation(key, fmt.Sprintf("%v: %s", sc, msg), map[string]interface{}{"scenario": sc.String(), "detail": msg, "event_log": b.Log.Dump(500)})
	}
	var mu sync.Mutex
	var conns []*bh.FConn
	var peers []*bh.Peer
	// (a) pre-send assertion: a QoS>0 PUBLISH / PUBREL being written is in the session now
	preSend := func(fc *bh.FConn) func(packet.Generic) {
		return func(g packet.Generic) {
			var id packet.ID
			switch v := g.(type) {
			case *packet.Publish:
				if v.Message.QOS == 0 {
					return
				}
				id = v.ID
			case *packet.Pubrel:
				id = v.ID
			default:
				return
			}
			ci := b.ClientOf(fc.Name)
			if ci == nil {
				return
			}
			snap := b.Mon.Snapshot(ci)
			if snap.Session == nil {
				return
			}
			stored, _ := snap.Session.LookupPacket(session.Outgoing, id)
			ok := false
			switch v := g.(type) {
			case *packet.Publish:
				if sp, is := stored.(*packet.Publish); is && string(sp.Message.Payload) == string(v.Message.Payload) {
					ok = true
				}
			case *packet.Pubrel:
				_, ok = stored.(*packet.Pubrel)
			}
			if !ok {
				fail("sent-before-stored", fmt.Sprintf("%s is being written while the session's outgoing store holds %s under id %d", ref.Canon(g), ref.Canon(stored), id))
			}
		}
	}
	// subscriber connection with a behaviour vector
	connectSub := func(clean bool, behaviour string, dflt byte) (*bh.Peer, *packet.Connack) {
		idx := len(conns)
		name := fmt.Sprintf("sub#%d", idx)
		n := 0
		reply := func(peer *bh.Peer) func(g packet.Generic) []packet.Generic {
			return func(g packet.Generic) []packet.Generic {
				var ack packet.Generic
				switch v := g.(type) {
				case *packet.Publish:
					if v.Message.QOS == 1 {
						ack = &packet.Puback{ID: v.ID}
					} else if v.Message.QOS == 2 {
						ack = &packet.Pubrec{ID: v.ID}
					} else {
						return nil
					}
				case *packet.Pubrel:
					ack = &packet.Pubcomp{ID: v.ID}
				default:
					return nil
				}
				act := dflt
				if n < len(behaviour) {
					act = behaviour[n]
				}
				n++
				switch act {
				case 'A':
					return []packet.Generic{ack}
				case 'D':
					peer.Close()
				}
				return nil
			}
		}
		p, fc, ca, err := b.Connect(name, bh.ConnectOpts{ID: "subscriber", Clean: clean, OnPeer: func(peer *bh.Peer) { peer.AutoReply = reply(peer) }}, func(fc *bh.FConn, be, pe *wire.End) {
			fc.PreSend = preSend(fc)
			if sc.Fault != nil && sc.Fault.Conn == idx {
				fc.AddFault(sc.Fault.F)
			}
		})
		mu.Lock()
		conns = append(conns, fc)
		peers = append(peers, p)
		mu.Unlock()
		if err != nil {
			res.inconclusive = "CONNACK watchdog"
		}
		return p, ca
	}
	if sc.Bystand {
		// an unrelated client with a lower-QoS subscription to the same topics: what
		// it is granted must not influence what the persistent subscriber gets
		by, _, bca, berr := b.Connect("bystander", bh.ConnectOpts{ID: "bystander", Clean: true, AutoAck: true}, nil)
		if berr != nil || bca == nil {
			res.inconclusive = "bystander could not connect"
			return res
		}
		_ = by.Send(&packet.Subscribe{ID: 1, Subscriptions: []packet.Subscription{{Topic: "t/#", QOS: 0}}})
		if _, err := bh.AwaitAck(by, packet.SUBACK, 1); err != nil {
			res.inconclusive = "bystander SUBACK"
			return res
		}
	}
	// publisher
	pub, _, pca, err := b.Connect("pub", bh.ConnectOpts{ID: "publisher", Clean: true, AutoAck: true}, nil)
	if err != nil || pca == nil {
		res.inconclusive = "publisher could not connect"
		return res
	}
	pid := packet.ID(0)
	msgN := 0
	var accepted []string // payloads of QoS>=1 messages accepted (acknowledged to the publisher) while the subscription existed
	publish := func(q packet.QOS, tag string) bool {
		msgN++
		pl := fmt.Sprintf("%s-%d-q%d", tag, msgN, q)
		pid++
		_ = pub.Send(&packet.Publish{ID: pid, Message: packet.Message{Topic: "t/x", QOS: q, Payload: []byte(pl)}})
		var err error
		if q == 1 {
			_, err = bh.AwaitAck(pub, packet.PUBACK, pid)
		} else {
			if _, err = bh.AwaitAck(pub, packet.PUBREC, pid); err == nil {
				_ = pub.Send(&packet.Pubrel{ID: pid})
				_, err = bh.AwaitAck(pub, packet.PUBCOMP, pid)
			}
		}
		if err != nil {
			res.inconclusive = "publisher handshake did not complete: " + err.Error()
			return false
		}
		accepted = append(accepted, pl)
		return true
	}

	// stored-session model for session-present
	// The model follows what the broker did, not what the peer saw: a connect
	// changes the stored session as soon as the backend's Setup succeeded for it,
	// also when the CONNACK was lost to a fault; a CONNECT the broker never
	// received changes nothing.
	storedModel := false
	setupDone := func(p *bh.Peer, ca *packet.Connack) bool {
		if ca != nil {
			return true
		}
		// no CONNACK: let the broker-side client finish before asking
		p.Close()
		if !b.WaitClosed(p.Name, bh.Watchdog) {
			return false
		}
		if ci := b.ClientOf(p.Name); ci != nil {
			return b.Mon.Snapshot(ci).SetupOK
		}
		return false
	}
	checkSP := func(p *bh.Peer, ca *packet.Connack, clean bool, which string) bool {
		done := setupDone(p, ca)
		if ca != nil {
			want := !clean && storedModel
			if ca.SessionPresent != want {
				fail("session-present", fmt.Sprintf("%s (clean=%t): CONNACK session-present=%t, expected %t", which, clean, ca.SessionPresent, want))
			}
		}
		if done {
			storedModel = !clean
		}
		return done
	}

	// ---- phase 0/1: subscribe, publish online
	s0, ca0 := connectSub(false, sc.B1, 'W')
	if res.inconclusive != "" {
		return res
	}
	checkSP(s0, ca0, false, "first connect")
	subscribed := false
	if ca0 != nil && !s0.EOF() {
		_ = s0.Send(&packet.Subscribe{ID: 1, Subscriptions: []packet.Subscription{{Topic: "t/#", QOS: 2}}})
		if _, err := bh.AwaitAck(s0, packet.SUBACK, 1); err == nil {
			subscribed = true
		} else if err == bh.ErrTimeout {
			res.inconclusive = "SUBACK watchdog"
			return res
		}
	}
	if !subscribed {
		// the fault hit the set-up exchange: nothing to judge beyond what already ran
		collect(&res, conns)
		return res
	}
	firstAccepted := len(accepted)
	for _, q := range sc.QoS {
		if !publish(q, "on") {
			return res
		}
	}
	// let the subscriber's behaviour play out: fence on the publisher side is not
	// enough, so probe the subscriber with a PINGREQ (if it is still there)
	if !s0.EOF() {
		if err := bh.Ping(s0); err == bh.ErrTimeout {
			res.inconclusive = "subscriber PINGRESP watchdog (phase 1)"
			return res
		}
	}
	// workload shaping only (never a verdict): give the dequeuer time to fill the window
	settle(b)
	if sc.OwnPub {
		// the subscriber publishes on the same connection under packet ids the
		// broker is using towards it: the two directions have separate id spaces
		for k := 1; k <= sc.Window+2 && !s0.EOF(); k++ {
			_ = s0.Send(&packet.Publish{ID: packet.ID(k), Message: packet.Message{Topic: "own/x", QOS: 2, Payload: []byte(fmt.Sprintf("own-%d", k))}})
			if _, err := bh.AwaitAck(s0, packet.PUBREC, packet.ID(k)); err != nil {
				break
			}
			_ = s0.Send(&packet.Pubrel{ID: packet.ID(k)})
			if _, err := bh.AwaitAck(s0, packet.PUBCOMP, packet.ID(k)); err != nil {
				break
			}
		}
	}
	// connection loss
	s0.Close()
	if !b.WaitClosed(s0.Name, bh.Watchdog) {
		res.inconclusive = "subscriber client did not close (phase 1)"
		return res
	}
	model := newModel(b, fail)
	model.replay()
	model.checkStore("after the first connection ended")
	// ---- phase 1b: offline publishes
	for _, q := range sc.Offline {
		if !publish(q, "off") {
			return res
		}
	}
	// ---- phase 2: resume (or clean connect) with behaviour B2, possibly dropping again
	lossOut := model.outstanding()
	if sc.Shrink {
		// more packets may now be stored than the window admits: all of them are
		// still retransmitted on reconnect
		b.Mon.Inner.ClientInflightMessages = 1
	}
	s1, ca1 := connectSub(sc.Clean2, sc.B2, 'W')
	if res.inconclusive != "" {
		return res
	}
	if done1 := checkSP(s1, ca1, sc.Clean2, "second connect"); sc.Clean2 && !done1 {
		// the fault kept the clean CONNECT from reaching the backend: nothing was
		// discarded and the scenario's later phases do not apply
		r.Count("clean_connect_never_set_up", 1)
		collect(&res, conns)
		return res
	}
	if sc.Clean2 {
		accepted = accepted[:firstAccepted] // subscription and queue are discarded
		if ca1 != nil && !s1.EOF() {
			if err := bh.Ping(s1); err == bh.ErrTimeout {
				res.inconclusive = "PINGRESP watchdog (clean connect)"
				return res
			}
			for _, g := range s1.All() {
				switch g.(type) {
				case *packet.Publish, *packet.Pubrel:
					fail("clean-connect-keeps-state", "after a clean-session connect the broker still sent "+ref.Canon(g))
				}
			}
		}
		lossOut = nil
	} else if ca1 != nil && !s1.EOF() {
		if err := bh.Ping(s1); err == nil {
			settle(b)
			checkResent(s1, lossOut, fail, "second connection")
		} else if err == bh.ErrTimeout {
			res.inconclusive = "PINGRESP watchdog (phase 2)"
			return res
		}
	}
	s1.Close()
	if !b.WaitClosed(s1.Name, bh.Watchdog) {
		res.inconclusive = "subscriber client did not close (phase 2)"
		return res
	}
	model.replay()
	model.checkStore("after the second connection ended")
	if sc.Clean2 {
		// clean connect discarded everything: a later unclean connect starts afresh
		s2, ca2 := connectSub(false, "", 'A')
		if res.inconclusive != "" {
			return res
		}
		checkSP(s2, ca2, false, "third connect")
		if ca2 != nil && !s2.EOF() {
			if err := bh.Ping(s2); err == bh.ErrTimeout {
				res.inconclusive = "PINGRESP watchdog (after clean)"
				return res
			}
			for _, g := range s2.All() {
				switch g.(type) {
				case *packet.Publish, *packet.Pubrel:
					fail("clean-connect-keeps-state", "state survived a clean-session connect: the next unclean connection received "+ref.Canon(g))
				}
			}
		}
		collect(&res, conns)
		r.Distinct("event_traces", b.Log.Trace())
		return res
	}
	// ---- phase 3: resume, acknowledge everything
	lossOut = model.outstanding()
	var s2 *bh.Peer
	for try := 0; try < 3; try++ {
		var ca2 *packet.Connack
		s2, ca2 = connectSub(false, "", 'A')
		if res.inconclusive != "" {
			return res
		}
		checkSP(s2, ca2, false, "resume")
		if ca2 != nil && !s2.EOF() {
			break
		}
		s2.Close()
		b.WaitClosed(s2.Name, bh.Watchdog)
		model.replay()
		lossOut = model.outstanding()
	}
	if s2.EOF() {
		collect(&res, conns)
		return res
	}
	if err := bh.Ping(s2); err == nil {
		checkResent(s2, lossOut, fail, "resumed connection")
	}
	// final marker, then wait until the subscriber has seen it and all handshakes are done
	if !publish(1, "final") {
		return res
	}
	final := accepted[len(accepted)-1]
	ok := s2.WaitCond(bh.Watchdog, func(all []packet.Generic) bool {
		for _, g := range all {
			if p, is := g.(*packet.Publish); is && string(p.Message.Payload) == final {
				return true
			}
		}
		return false
	})
	if !ok {
		if s2.EOF() {
			// a fault hit this connection too: judged by the store check only
			b.WaitClosed(s2.Name, bh.Watchdog)
			model.replay()
			model.checkStore("after the resumed connection ended")
			collect(&res, conns)
			return res
		}
		fail("delivery-stalled", fmt.Sprintf("the subscriber acknowledges everything but the final message never arrived; received on this connection: %v", kinds(s2.All())))
		collect(&res, conns)
		return res
	}
	// two pings: PUBRELs answered, PUBCOMPs processed
	pinged := 0
	for k := 0; k < 2; k++ {
		if err := bh.Ping(s2); err != nil {
			if err == bh.ErrTimeout {
				res.inconclusive = "PINGRESP watchdog (final)"
				return res
			}
			break
		}
		pinged++
	}
	if pinged == 2 && !s2.EOF() {
		// (e) everything accepted was delivered at least once over all connections
		got := map[string]int{}
		mu.Lock()
		ps := append([]*bh.Peer(nil), peers...)
		mu.Unlock()
		for _, q := range ps {
			for _, g := range q.All() {
				if p, is := g.(*packet.Publish); is {
					got[string(p.Message.Payload)]++
				}
			}
		}
		for _, pl := range accepted {
			if got[pl] == 0 {
				fail("message-lost", fmt.Sprintf("message %s was accepted from the publisher while the persistent subscription existed and never reached the subscriber (received: %v)", pl, got))
			}
		}
		model.replay()
		if out := model.outstanding(); len(out) != 0 {
			fail("handshake-incomplete", fmt.Sprintf("the subscriber acknowledged everything but the broker still has %v outstanding", out))
		}
		model.checkStoreExact("at the end (everything acknowledged)")
	}
	model.replay()
	model.checkDup()
	collect(&res, conns)
	r.Distinct("event_traces", b.Log.Trace())
	for _, q := range peers {
		if err := q.ProtocolError(); err != nil {
			fail("malformed-from-broker", err.Error())
		}
	}
	return res
}

// settle waits until the event log has been quiet for a moment (bounded).
func settle(b *bh.Broker) {
	for i := 0; i < 100; i++ {
		n := b.Log.Len()
		time.Sleep(500 * time.Microsecond)
		if b.Log.Len() == n {
			return
		}
	}
}

func kinds(gs []packet.Generic) []string {
	var out []string
	for _, g := range gs {
		out = append(out, ref.Canon(g))
	}
	return out
}

func collect(res *result, conns []*bh.FConn) {
	res.sends, res.recvs = nil, nil
	for _, fc := range conns {
		s, rc := fc.Counts()
		res.sends = append(res.sends, s)
		res.recvs = append(res.recvs, rc)
	}
}

// checkResent: every packet outstanding at the time of the loss is retransmitted
// on the new connection before the PINGRESP fence: PUBLISH with DUP, or PUBREL.
func checkResent(p *bh.Peer, lossOut map[packet.ID]outEntry, fail func(string, string), which string) {
	have := map[string]bool{}
	for _, g := range p.All() {
		switch v := g.(type) {
		case *packet.Publish:
			if v.Message.QOS > 0 {
				have[fmt.Sprintf("publish|%d|%s|%t", v.ID, v.Message.Payload, v.Dup)] = true
			}
		case *packet.Pubrel:
			have[fmt.Sprintf("pubrel|%d", v.ID)] = true
		}
	}
	for id, e := range lossOut {
		switch e.kind {
		case "publish":
			if !have[fmt.Sprintf("publish|%d|%s|true", id, e.payload)] {
				key := "not-retransmitted"
				if have[fmt.Sprintf("publish|%d|%s|false", id, e.payload)] {
					key = "retransmitted-without-dup"
				}
				fail(key, fmt.Sprintf("%s: unacknowledged PUBLISH id=%d %s was not retransmitted with DUP after the unclean reconnect (received %v)", which, id, e.payload, kinds(p.All())))
			}
		case "pubrel":
			if !have[fmt.Sprintf("pubrel|%d", id)] {
				fail("not-retransmitted", fmt.Sprintf("%s: PUBREL id=%d (PUBREC had been received) was not retransmitted after the unclean reconnect (received %v)", which, id, kinds(p.All())))
			}
		}
	}
}

// model of {sent and not acknowledged} for the subscriber's client id, driven by
// the broker-side send log and the broker's own received-packet report.
type smodel struct {
	b       *bh.Broker
	fail    func(string, string)
	out     map[packet.ID]outEntry
	recd    map[string]bool // payloads whose PUBREC the broker processed
	nondup  map[string]int  // QoS 2 payload -> non-duplicate PUBLISH transmissions
	qos2    map[string]bool
	afterRe []string

	reuseReported bool
}

func newModel(b *bh.Broker, fail func(string, string)) *smodel {
	return &smodel{b: b, fail: fail}
}

func (m *smodel) replay() {
	m.out = map[packet.ID]outEntry{}
	m.recd = map[string]bool{}
	m.nondup = map[string]int{}
	m.qos2 = map[string]bool{}
	m.afterRe = nil
	for _, e := range m.b.Log.Events() {
		if !strings.HasPrefix(e.Who, "sub#") {
			continue
		}
		switch e.Kind {
		case "bsend":
			switch v := e.Pkt.(type) {
			case *packet.Publish:
				if v.Message.QOS == 0 {
					continue
				}
				pl := string(v.Message.Payload)
				// a packet id identifies one unacknowledged message: the session
				// records packets by id, so a second message sent under an id that
				// is still in flight displaces the first one's record
				if cur, ok := m.out[v.ID]; ok && cur.payload != pl && !m.reuseReported {
					m.reuseReported = true
					m.fail("packet-id-reused-in-flight", fmt.Sprintf("the broker sent message %s with packet id %d while %s of message %s under the same id was still unacknowledged", pl, v.ID, cur.kind, cur.payload))
				}
				m.out[v.ID] = outEntry{"publish", pl}
				if v.Message.QOS == 2 {
					m.qos2[pl] = true
					if !v.Dup {
						m.nondup[pl]++
					}
					if m.recd[pl] {
						m.afterRe = append(m.afterRe, pl)
					}
				}
			case *packet.Pubrel:
				m.out[v.ID] = outEntry{"pubrel", m.out[v.ID].payload}
			case *packet.Connack:
				if !v.SessionPresent {
					m.out = map[packet.ID]outEntry{} // a fresh session has nothing in flight
				}
			}
		case "log:packet received":
			switch v := e.Pkt.(type) {
			case *packet.Puback:
				delete(m.out, v.ID)
			case *packet.Pubcomp:
				delete(m.out, v.ID)
			case *packet.Pubrec:
				if cur, ok := m.out[v.ID]; ok {
					m.recd[cur.payload] = true
					m.out[v.ID] = outEntry{"pubrel", cur.payload}
				}
			}
		}
	}
}

func (m *smodel) outstanding() map[packet.ID]outEntry {
	cp := map[packet.ID]outEntry{}
	for k, v := range m.out {
		cp[k] = v
	}
	return cp
}

func (m *smodel) store() (map[packet.ID]outEntry, bool) {
	// the persistent session object is shared by all connections of the id
	var sess interface {
		AllPackets(session.Direction) ([]packet.Generic, error)
	}
	for _, ci := range m.b.Mon.Clients() {
		snap := m.b.Mon.Snapshot(ci)
		if strings.HasPrefix(snap.Name, "sub#") && snap.Session != nil && !snap.Clean {
			sess = snap.Session
		}
	}
	if sess == nil {
		return nil, false
	}
	all, _ := sess.AllPackets(session.Outgoing)
	st := map[packet.ID]outEntry{}
	for _, g := range all {
		switch v := g.(type) {
		case *packet.Publish:
			st[v.ID] = outEntry{"publish", string(v.Message.Payload)}
		case *packet.Pubrel:
			st[v.ID] = outEntry{"pubrel", ""}
		}
	}
	return st, true
}

func render(m map[packet.ID]outEntry) string {
	var ks []string
	for id, e := range m {
		ks = append(ks, fmt.Sprintf("%d:%s:%s", id, e.kind, e.payload))
	}
	sort.Strings(ks)
	return fmt.Sprint(ks)
}

// checkStore: every sent-and-unacknowledged packet is recorded in the session.
func (m *smodel) checkStore(when string) {
	st, ok := m.store()
	if !ok {
		return
	}
	for id, e := range m.out {
		got, have := st[id]
		if !have || got.kind != e.kind || (e.kind == "publish" && got.payload != e.payload) {
			m.fail("store-misses-unacknowledged", fmt.Sprintf("%s: packet id=%d (%s %s) was sent and not acknowledged but the session's outgoing store holds %s", when, id, e.kind, e.payload, render(st)))
		}
	}
}

func (m *smodel) checkStoreExact(when string) {
	st, ok := m.store()
	if !ok {
		return
	}
	if render(st) != render(m.out) && len(st) != 0 {
		m.fail("store-keeps-acknowledged", fmt.Sprintf("%s: session outgoing store %s, model of sent-and-unacknowledged %s", when, render(st), render(m.out)))
	}
}

func (m *smodel) checkDup() {
	for pl, n := range m.nondup {
		if n > 1 {
			m.fail("qos2-redelivered-as-new", fmt.Sprintf("QoS 2 message %s was transmitted %d times without the DUP flag", pl, n))
		}
	}
	for _, pl := range m.afterRe {
		m.fail("qos2-publish-after-pubrec", fmt.Sprintf("QoS 2 message %s was sent again as PUBLISH after its PUBREC had been received", pl))
	}
}

func TestCheck(t *testing.T) {
	r := h.New("C08", "fault_enumeration")
	r.Rule("scenarios: inflight window 1-3, 1..window+2 online messages of mixed QoS 1/2, 0-2 offline messages, subscriber behaviour vectors over {ack, withhold, drop connection} per received PUBLISH/PUBREL on the first and on the resumed connection, second connection unclean or clean, a fifth with a QoS 0 bystander subscribed to the same topics, a third with the backend's window lowered to 1 before the subscriber reconnects (more packets stored than the window admits), a quarter of the scenarios with the subscriber itself publishing QoS 2 messages under the packet ids in flight towards it; every base scenario is first run without faults to count the packets on each subscriber connection and then re-run with every single fault position (connection c, k-th broker-side Send/Receive, before/after) — all positions for a deterministic third of the base scenarios in quick, for all in thorough. Non-trivial = runs with >= 1 unacknowledged QoS>0 packet at the moment of a connection loss; distinct by (scenario, fault)")
	r.Assume("the subscriber-side model of sent-and-unacknowledged packets is driven by broker-side sends and by the broker's own Log(PacketReceived) report")
	r.Assume("workloads stay inside SessionQueueSize (overflow behaviour is documented as out of contract)")
	rng := r.Rand("c08")
	var base []scenario
	b1s := []string{"", "A", "W", "D", "AD", "WD", "AW", "AAD", "AWD", "WWD", "AAAD", "AWAD"}
	b2s := []string{"", "A", "D", "AD", "WD", "AAD"}
	nbase := r.Pick(90, 1200)
	for i := 0; i < nbase; i++ {
		w := 1 + i%3
		n := 1 + rng.Intn(w+2)
		sc := scenario{Window: w, B1: b1s[rng.Intn(len(b1s))], B2: b2s[rng.Intn(len(b2s))], Clean2: i%9 == 8, OwnPub: i%4 == 1, Bystand: i%5 == 2, Shrink: w > 1 && i%6 >= 4}
		for k := 0; k < n; k++ {
			sc.QoS = append(sc.QoS, packet.QOS(1+rng.Intn(2)))
		}
		for k, m := 0, rng.Intn(3); k < m; k++ {
			sc.Offline = append(sc.Offline, packet.QOS(1+rng.Intn(2)))
		}
		base = append(base, sc)
	}
	var nfault int64
	var cmu sync.Mutex
	h.Parallel(len(base), 16, func(i int) {
		sc := base[i]
		r.Journal("C08 %v", sc)
		res := run(r, sc)
		r.Eval()
		if res.inconclusive != "" {
			r.Inconclusive(fmt.Sprintf("%v: %s", sc, res.inconclusive))
			return
		}
		if strings.ContainsAny(sc.B1, "WD") || sc.B1 == "" {
			r.NonTrivial(sc.String())
		}
		if i < 3 {
			r.Sample(map[string]interface{}{"scenario": sc.String(), "broker_sends_per_subscriber_connection": res.sends, "broker_receives_per_subscriber_connection": res.recvs})
		}
		if r.Quick() && i%3 != 0 {
			return
		}
		var faults []connFault
		for c := range res.sends {
			for k := 1; k <= res.sends[c]; k++ {
				faults = append(faults, connFault{c, bh.Fault{Dir: "send", K: k, When: "before"}}, connFault{c, bh.Fault{Dir: "send", K: k, When: "after"}})
			}
			for k := 1; k <= res.recvs[c]; k++ {
				faults = append(faults, connFault{c, bh.Fault{Dir: "recv", K: k, When: "before"}}, connFault{c, bh.Fault{Dir: "recv", K: k, When: "after"}})
			}
		}
		for _, f := range faults {
			f := f
			s2 := sc
			s2.Fault = &f
			r.Journal("C08 %v", s2)
			res2 := run(r, s2)
			r.Eval()
			if res2.inconclusive != "" {
				r.Inconclusive(fmt.Sprintf("%v: %s", s2, res2.inconclusive))
				continue
			}
			r.NonTrivial(s2.String())
			cmu.Lock()
			nfault++
			cmu.Unlock()
		}
	})
	r.Count("base_scenarios", int64(len(base)))
	r.Count("fault_runs", nfault)
	h.Exit(r.Finish(50))
}
