// C06 — broker fan-out: exactly the matching connected subscribers, once,
// intact, QoS-capped. Monitor: reference delivery model (ref.BrokerModel) +
// marker fences; sequential mode compares after every operation, concurrent
// mode judges by event-log order.
package c06

import (
	"bytes"
	"fmt"
	"math/rand"
	"strings"
	"sync"
	"testing"
	"time"

	"github.com/256dpi/gomqtt/packet"

	"verif/internal/bh"
	"verif/internal/h"
	"verif/internal/ref"
	"verif/internal/wire"
)

// the universe includes names and filters with empty levels (a//b, a/b/, /a):
// they are distinct topics and must be routed and delivered byte for byte
var topics = []string{"a", "a/b", "a/c", "b", "b/c", "a/b/c", "c", "a//b", "a/b/", "/a"}
var filters = []string{"a", "a/b", "a/+", "a/#", "+/b", "#", "+", "b/#", "+/+", "a/b/#", "+/c", "c", "a//b", "a/+/b", "a/b/+", "/+", "a/b/"}

type step struct {
	Kind   string // join leave sub unsub pub
	Who    string
	Subs   []packet.Subscription
	Topics []string
	Msg    packet.Message
	Clean  bool
}

func (s step) String() string {
	switch s.Kind {
	case "join":
		return fmt.Sprintf("%s:join(clean=%t)", s.Who, s.Clean)
	case "leave":
		return s.Who + ":disconnect"
	case "sub":
		return fmt.Sprintf("%s:subscribe%v", s.Who, s.Subs)
	case "unsub":
		return fmt.Sprintf("%s:unsubscribe%v", s.Who, s.Topics)
	}
	return fmt.Sprintf("%s:publish(%q,q%d,r%t,%s)", s.Who, s.Msg.Topic, s.Msg.QOS, s.Msg.Retain, clipS(string(s.Msg.Payload)))
}

func clipS(s string) string {
	if len(s) > 24 {
		return s[:24] + fmt.Sprintf("…(%d)", len(s))
	}
	return s
}

func genHistory(rng *rand.Rand, n int) []step {
	names := []string{"p1", "p2", "p3", "p4", "p5", "p6"}[:1+rng.Intn(6)]
	online := map[string]bool{}
	joined := map[string]bool{}
	var hist []step
	msgN := 0
	for len(hist) < n {
		who := names[rng.Intn(len(names))]
		if !online[who] {
			// a client id that was used before comes back with a clean session
			// (resumption of offline state is C08's subject)
			hist = append(hist, step{Kind: "join", Who: who, Clean: joined[who] || rng.Intn(3) != 0})
			online[who] = true
			joined[who] = true
			continue
		}
		switch x := rng.Intn(20); {
		case x < 6:
			var subs []packet.Subscription
			for k, m := 0, 1+rng.Intn(4); k < m; k++ {
				subs = append(subs, packet.Subscription{Topic: filters[rng.Intn(len(filters))], QOS: packet.QOS(rng.Intn(3))})
			}
			hist = append(hist, step{Kind: "sub", Who: who, Subs: subs})
		case x < 8:
			var ts []string
			for k, m := 0, 1+rng.Intn(3); k < m; k++ {
				ts = append(ts, filters[rng.Intn(len(filters))])
			}
			hist = append(hist, step{Kind: "unsub", Who: who, Topics: ts})
		case x < 19:
			msgN++
			size := 0
			switch rng.Intn(12) {
			case 0:
				size = rng.Intn(65536)
			case 1:
				size = rng.Intn(3000)
			}
			payload := fmt.Sprintf("msg-%d-%s", msgN, who)
			if size > len(payload) {
				payload += strings.Repeat("x", size-len(payload))
			}
			hist = append(hist, step{Kind: "pub", Who: who, Msg: packet.Message{Topic: topics[rng.Intn(len(topics))], Payload: []byte(payload), QOS: packet.QOS(rng.Intn(3)), Retain: rng.Intn(8) == 0}})
		default:
			hist = append(hist, step{Kind: "leave", Who: who})
			online[who] = false
		}
	}
	return hist
}

func runSequential(r *h.Run, idx int, hist []step) {
	if r.TooMany() {
		return
	}
	cl, err := bh.NewCluster()
	if err != nil {
		r.Inconclusive(err.Error())
		return
	}
	defer cl.Shutdown()
	model := ref.NewBrokerModel()
	clean := map[string]bool{}
	nontrivial := false
	fail := func(i int, key, msg string) {
		r.Violation(key, fmt.Sprintf("sequential history #%d step %d %v: %s", idx, i, hist[i], msg), map[string]interface{}{
			"history": fmt.Sprint(hist[:i+1]), "detail": msg, "event_log_tail": cl.B.Log.Dump(60)})
	}
	for i, st := range hist {
		r.Journal("C06 sequential history #%d step %d of %v", idx, i, hist)
		expect := map[string][]ref.Expect{}
		switch st.Kind {
		case "join":
			_, _, err := cl.Join(st.Who, st.Clean, nil)
			if err != nil {
				fail(i, "join-failed", err.Error())
				return
			}
			clean[st.Who] = st.Clean
			model.Connect(st.Who, true) // names are used once per connected period (fresh state: persistent sessions never rejoin here)
			model.Subscribe(st.Who, []packet.Subscription{{Topic: bh.MarkerTopic, QOS: 1}})
		case "leave":
			p := cl.Peers[st.Who]
			_ = p.Send(&packet.Disconnect{})
			if !p.WaitEOF(bh.Watchdog) {
				r.Inconclusive(fmt.Sprintf("history #%d: connection of %s did not close after DISCONNECT within the watchdog", idx, st.Who))
				return
			}
			cl.B.WaitClosed(p.Name, bh.Watchdog)
			cl.Leave(st.Who)
			model.Disconnect(st.Who, true)
			// persistent client ids are not reused within a history
		case "sub":
			p := cl.Peers[st.Who]
			id := cl.ID(st.Who)
			_ = p.Send(&packet.Subscribe{ID: id, Subscriptions: st.Subs})
			g, err := bh.AwaitAck(p, packet.SUBACK, id)
			if err != nil {
				fail(i, "no-suback", "no SUBACK: "+err.Error())
				return
			}
			sa := g.(*packet.Suback)
			if len(sa.ReturnCodes) != len(st.Subs) {
				fail(i, "suback-codes", fmt.Sprintf("SUBACK carries %d codes for %d filters", len(sa.ReturnCodes), len(st.Subs)))
			}
			expect[st.Who] = model.Subscribe(st.Who, st.Subs)
		case "unsub":
			p := cl.Peers[st.Who]
			id := cl.ID(st.Who)
			_ = p.Send(&packet.Unsubscribe{ID: id, Topics: st.Topics})
			if _, err := bh.AwaitAck(p, packet.UNSUBACK, id); err != nil {
				fail(i, "no-unsuback", "no UNSUBACK: "+err.Error())
				return
			}
			model.Unsubscribe(st.Who, st.Topics)
		case "pub":
			p := cl.Peers[st.Who]
			pub := &packet.Publish{Message: st.Msg}
			var err error
			switch st.Msg.QOS {
			case 0:
				_ = p.Send(pub)
				err = bh.Ping(p)
			case 1:
				pub.ID = cl.ID(st.Who)
				_ = p.Send(pub)
				_, err = bh.AwaitAck(p, packet.PUBACK, pub.ID)
			case 2:
				pub.ID = cl.ID(st.Who)
				_ = p.Send(pub)
				if _, err = bh.AwaitAck(p, packet.PUBREC, pub.ID); err == nil {
					_ = p.Send(&packet.Pubrel{ID: pub.ID})
					_, err = bh.AwaitAck(p, packet.PUBCOMP, pub.ID)
				}
			}
			if err != nil {
				fail(i, "publish-not-acknowledged", "publisher handshake did not complete: "+err.Error())
				return
			}
			n := 0
			for who, e := range model.Publish(st.Msg) {
				expect[who] = append(expect[who], e)
				n++
				if len(e.QOS) > 1 {
					nontrivial = true
				}
			}
			if n >= 2 {
				nontrivial = true
			}
		}
		if err := cl.Fence(); err != nil {
			fail(i, "fence", "marker fence failed (a member was disconnected or stopped receiving): "+err.Error())
			return
		}
		for who := range cl.Peers {
			gotP := cl.Drain(who)
			if key, msg := ref.CompareDeliveries(gotP, expect[who]); key != "" {
				fail(i, key, fmt.Sprintf("client %s received %v, model expects %v: %s", who, ref.DescribeGot(gotP), ref.DescribeExp(expect[who]), msg))
				return
			}
			if err := cl.Peers[who].ProtocolError(); err != nil {
				fail(i, "malformed-from-broker", err.Error())
				return
			}
		}
	}
	if nontrivial {
		r.NonTrivial(fmt.Sprintf("seq:%d:%v", idx, hist))
	}
	r.Distinct("event_traces", cl.B.Log.Trace())
	r.Eval()
}

// ---------------------------------------------------------------- concurrent

type interval struct{ from, to int64 }

type subChange struct {
	iv      interval
	filters map[string]bool
}

type pubRec struct {
	who string
	msg packet.Message
	iv  interval
}

func runConcurrent(r *h.Run, idx int) {
	if r.TooMany() {
		return
	}
	rng := r.Rand(fmt.Sprintf("c06-conc-%d", idx))
	cl, err := bh.NewClusterWith(func(b *bh.Broker) {
		if idx%2 == 0 {
			b.Mon.Perturb = r.Rand(fmt.Sprintf("c06-perturb-%d", idx))
		}
	})
	if err != nil {
		r.Inconclusive(err.Error())
		return
	}
	defer cl.Shutdown()
	np := 2 + rng.Intn(5)
	names := []string{"p1", "p2", "p3", "p4", "p5", "p6"}[:np]
	scripts := map[string][]step{}
	msgN := 0
	for _, n := range names {
		if _, _, err := cl.Join(n, true, nil); err != nil {
			r.Inconclusive("concurrent join failed: " + err.Error())
			return
		}
		var sc []step
		for k := 0; k < 6+rng.Intn(14); k++ {
			switch x := rng.Intn(10); {
			case x < 3:
				var subs []packet.Subscription
				for j, m := 0, 1+rng.Intn(3); j < m; j++ {
					subs = append(subs, packet.Subscription{Topic: filters[rng.Intn(len(filters))], QOS: packet.QOS(rng.Intn(3))})
				}
				sc = append(sc, step{Kind: "sub", Who: n, Subs: subs})
			case x < 4:
				sc = append(sc, step{Kind: "unsub", Who: n, Topics: []string{filters[rng.Intn(len(filters))]}})
			default:
				msgN++
				sc = append(sc, step{Kind: "pub", Who: n, Msg: packet.Message{Topic: topics[rng.Intn(len(topics))], Payload: []byte(fmt.Sprintf("cm-%d-%s", msgN, n)), QOS: packet.QOS(rng.Intn(3))}})
			}
		}
		scripts[n] = sc
	}
	var mu sync.Mutex
	changes := map[string][]subChange{}
	var pubs []pubRec
	// per-client subscription timeline (client's own order): list of (interval, op)
	type tl struct {
		iv interval
		st step
	}
	timeline := map[string][]tl{}
	var wg sync.WaitGroup
	failed := false
	for _, n := range names {
		wg.Add(1)
		go func(n string) {
			defer wg.Done()
			p := cl.Peers[n]
			ids := packet.ID(100)
			for _, st := range scripts[n] {
				from := cl.B.Log.Add(n, "op-start", nil, st.String())
				var err error
				switch st.Kind {
				case "sub":
					ids++
					_ = p.Send(&packet.Subscribe{ID: ids, Subscriptions: st.Subs})
					_, err = bh.AwaitAck(p, packet.SUBACK, ids)
				case "unsub":
					ids++
					_ = p.Send(&packet.Unsubscribe{ID: ids, Topics: st.Topics})
					_, err = bh.AwaitAck(p, packet.UNSUBACK, ids)
				case "pub":
					pub := &packet.Publish{Message: st.Msg}
					switch st.Msg.QOS {
					case 0:
						_ = p.Send(pub)
						err = bh.Ping(p)
					case 1:
						ids++
						pub.ID = ids
						_ = p.Send(pub)
						_, err = bh.AwaitAck(p, packet.PUBACK, ids)
					case 2:
						ids++
						pub.ID = ids
						_ = p.Send(pub)
						if _, err = bh.AwaitAck(p, packet.PUBREC, ids); err == nil {
							_ = p.Send(&packet.Pubrel{ID: ids})
							_, err = bh.AwaitAck(p, packet.PUBCOMP, ids)
						}
					}
				}
				to := cl.B.Log.Add(n, "op-end", nil, "")
				mu.Lock()
				if err != nil {
					failed = true
					mu.Unlock()
					return
				}
				iv := interval{from, to}
				switch st.Kind {
				case "sub", "unsub":
					timeline[n] = append(timeline[n], tl{iv, st})
				case "pub":
					pubs = append(pubs, pubRec{n, st.Msg, iv})
				}
				mu.Unlock()
			}
		}(n)
	}
	wg.Wait()
	_ = changes
	fail := func(key, msg string) {
		r.Violation("concurrent/"+key, fmt.Sprintf("concurrent run #%d (%d clients): %s", idx, np, msg), map[string]interface{}{"scripts": fmt.Sprint(scripts), "detail": msg, "event_log_tail": cl.B.Log.Dump(80)})
	}
	if failed {
		fail("op-not-acknowledged", "a request was not acknowledged (connection closed or watchdog)")
		return
	}
	if err := cl.Fence(); err != nil {
		fail("fence", err.Error())
		return
	}
	// delivery times from the event log: (peer, payload) -> seq of the precv event
	delivered := map[string]int64{}
	for _, e := range cl.B.Log.Events() {
		if e.Kind == "precv" {
			if pub, ok := e.Pkt.(*packet.Publish); ok {
				delivered[e.Who+"|"+string(pub.Message.Payload)] = e.Seq
			}
		}
	}
	// statesUntil walks s's own (sequential) request timeline: requests that
	// completed before `from` are applied; requests overlapping [from,until]
	// may or may not have taken effect (a multi-filter SUBSCRIBE possibly in part)
	statesUntil := func(s string, from, until int64) (states []map[string]packet.QOS, certain bool) {
		states = []map[string]packet.QOS{{bh.MarkerTopic: 1}}
		certain = true
		for _, e := range timeline[s] {
			if e.iv.from > until {
				break
			}
			apply := func(st map[string]packet.QOS) map[string]packet.QOS {
				n := map[string]packet.QOS{}
				for k, v := range st {
					n[k] = v
				}
				if e.st.Kind == "sub" {
					for _, sb := range e.st.Subs {
						n[sb.Topic] = sb.QOS
					}
				} else {
					for _, t := range e.st.Topics {
						delete(n, t)
					}
				}
				return n
			}
			var next []map[string]packet.QOS
			if e.iv.to < from {
				for _, st := range states {
					next = append(next, apply(st))
				}
			} else {
				certain = false
				for _, st := range states {
					next = append(next, st, apply(st))
					if e.st.Kind == "sub" && len(e.st.Subs) > 1 {
						for k := range e.st.Subs {
							n := map[string]packet.QOS{}
							for kk, v := range st {
								n[kk] = v
							}
							n[e.st.Subs[k].Topic] = e.st.Subs[k].QOS
							next = append(next, n)
						}
					}
				}
				if len(next) > 256 {
					return nil, false // too many possibilities: no verdict for this pair
				}
			}
			states = next
		}
		return states, certain
	}
	for _, s := range names {
		recv := map[string][]*packet.Publish{}
		for _, p := range cl.Drain(s) {
			recv[string(p.Message.Payload)] = append(recv[string(p.Message.Payload)], p)
		}
		for _, m := range pubs {
			got := recv[string(m.msg.Payload)]
			if len(got) > 1 {
				fail("duplicate-delivery", fmt.Sprintf("client %s received message %s %d times", s, m.msg.Payload, len(got)))
				return
			}
			// matching status is decided while the broker processes the publish
			states, certain := statesUntil(s, m.iv.from, m.iv.to)
			if states == nil {
				continue
			}
			mayMatch, mustMatch := false, true
			for _, st := range states {
				matched := false
				for f := range st {
					if ref.Matches(f, m.msg.Topic) {
						matched = true
					}
				}
				if matched {
					mayMatch = true
				} else {
					mustMatch = false
				}
			}
			switch {
			case len(got) == 1 && !mayMatch:
				fail("unexpected-delivery", fmt.Sprintf("client %s received %s on %q although none of its possible subscription states matches (requests %v)", s, m.msg.Payload, m.msg.Topic, timeline[s]))
				return
			case len(got) == 0 && mustMatch:
				fail("missing-delivery", fmt.Sprintf("client %s never received %s on %q although every possible subscription state matches (certain=%t)", s, m.msg.Payload, m.msg.Topic, certain))
				return
			}
			if len(got) == 1 {
				g := got[0]
				if g.Message.Topic != m.msg.Topic || g.Message.Retain {
					fail("altered", fmt.Sprintf("client %s received %s with topic %q retain=%t", s, m.msg.Payload, g.Message.Topic, g.Message.Retain))
					return
				}
				// the QoS cap is taken from a subscription state the client had
				// between the publish and the delivery (the broker caps when it
				// dequeues); if a state in that window has no matching filter any
				// more, the uncapped publish QoS is tolerated (recorded, see DESIGN)
				until := delivered[cl.Peers[s].Name+"|"+string(m.msg.Payload)]
				if until < m.iv.to {
					until = m.iv.to
				}
				qstates, _ := statesUntil(s, m.iv.from, until)
				if qstates == nil {
					continue
				}
				allowed := map[packet.QOS]bool{}
				for _, st := range qstates {
					matched := false
					for f, fq := range st {
						if ref.Matches(f, m.msg.Topic) {
							matched = true
							q := m.msg.QOS
							if fq < q {
								q = fq
							}
							allowed[q] = true
						}
					}
					if !matched {
						allowed[m.msg.QOS] = true
						r.Count("qos_windows_with_unmatched_state", 1)
					}
				}
				if !allowed[g.Message.QOS] {
					fail("qos", fmt.Sprintf("client %s received %s (published at QoS %d) at QoS %d, allowed %v (requests %v)", s, m.msg.Payload, m.msg.QOS, g.Message.QOS, allowed, timeline[s]))
					return
				}
			}
		}
	}
	r.NonTrivial(fmt.Sprintf("conc:%d:%d", idx, len(pubs)))
	r.Distinct("event_traces", cl.B.Log.Trace())
	r.Eval()
}

// burst: a connected subscriber stops reading for a moment while more messages
// than its session queue holds (queue 4, bounded wire) are published to it. A
// connected subscriber is never skipped: the publisher is held back instead;
// when the subscriber reads again it gets every message once, in order.
func burst(r *h.Run, idx int) {
	if r.TooMany() {
		return
	}
	q := packet.QOS(idx % 2) // (a QoS 2 stream would need the publisher's PUBREL handshake; C16 covers QoS 2 flow)
	n := 20 + idx%5*10
	label := fmt.Sprintf("burst #%d: %d QoS %d messages to a subscriber that pauses reading (queue 4)", idx, n, q)
	r.Journal("C06 %s", label)
	b := bh.NewBroker()
	b.Mon.Inner.SessionQueueSize = 4
	defer b.Shutdown()
	fail := func(key, msg string) {
		r.Violation("burst/"+key, label+": "+msg, map[string]interface{}{"detail": msg, "event_log_tail": b.Log.Dump(150)})
	}
	sub, _, sca, err := b.Connect("sub", bh.ConnectOpts{ID: "c06-burst-sub", Clean: true, AutoAck: true}, func(fc *bh.FConn, be, pe *wire.End) {
		be.SetCapacity(512)
	})
	if err != nil || sca == nil {
		r.Inconclusive(label + ": subscriber could not connect")
		return
	}
	_ = sub.Send(&packet.Subscribe{ID: 1, Subscriptions: []packet.Subscription{{Topic: "burst/#", QOS: 2}}})
	if _, err := bh.AwaitAck(sub, packet.SUBACK, 1); err != nil {
		r.Inconclusive(label + ": SUBACK")
		return
	}
	pub, _, pca, err := b.Connect("pub", bh.ConnectOpts{ID: "c06-burst-pub", Clean: true, AutoAck: true}, nil)
	if err != nil || pca == nil {
		r.Inconclusive(label + ": publisher could not connect")
		return
	}
	gate := make(chan struct{})
	sub.End.SetReadGate(gate)
	for i := 0; i < n; i++ {
		p := &packet.Publish{Message: packet.Message{Topic: "burst/x", QOS: q, Payload: append([]byte(fmt.Sprintf("b%04d|", i)), bytes.Repeat([]byte{'.'}, 120)...)}}
		if q > 0 {
			p.ID = packet.ID(i + 1)
		}
		_ = pub.Send(p)
	}
	_ = pub.Send(&packet.Publish{Message: packet.Message{Topic: "burst/end", QOS: q, Payload: []byte("end")}, ID: packet.ID(n + 1)})
	time.Sleep(3 * time.Millisecond) // shaping: let the queue and the wire fill up
	close(gate)
	ok := sub.WaitCond(bh.Watchdog, func(all []packet.Generic) bool {
		for i := len(all) - 1; i >= 0; i-- {
			if pp, is := all[i].(*packet.Publish); is && pp.Message.Topic == "burst/end" {
				return true
			}
		}
		return false
	})
	var got []int
	for _, g := range sub.All() {
		if pp, is := g.(*packet.Publish); is && pp.Message.Topic == "burst/x" && !pp.Dup {
			var k int
			fmt.Sscanf(string(pp.Message.Payload), "b%d|", &k)
			got = append(got, k)
		}
	}
	if !ok {
		fail("stalled", fmt.Sprintf("the end marker never reached the subscriber (%d of %d messages arrived)", len(got), n))
		return
	}
	if len(got) != n {
		fail("message-count", fmt.Sprintf("%d of %d messages reached the connected subscriber: %v", len(got), n, got))
		return
	}
	for i, k := range got {
		if k != i {
			fail("order", fmt.Sprintf("message #%d arrived at position %d: %v", k, i, got))
			return
		}
	}
	r.Eval()
	r.NonTrivial(fmt.Sprintf("burst:%d:%d", q, n))
}

func TestCheck(t *testing.T) {
	r := h.New("C06", "exploration")
	r.Rule("sequential: PRNG histories of ~30 operations over 1-6 clients {join, disconnect, subscribe 1-4 filters with different QoS, unsubscribe, publish qos 0-2 (1/8 retained), payloads up to 64 KiB} on a topic/filter universe with overlaps and wildcards; after every operation a marker fence, then the PUBLISH multiset each connected client received is compared with the reference model (topic, payload, retain flag, QoS within the set allowed by its matching filters, packet id presence). Concurrent: 2-6 clients run scripts at once, judged by event-log order (constant matching status => exactly 0/1, otherwise 0 or 1, never 2). Burst part: 20-60 messages of one QoS to a connected subscriber that pauses reading behind a bounded wire with a session queue of 4: all arrive once, in order. Non-trivial = histories with a publish matching >= 2 clients or >= 2 filters of one client; distinct by history")
	r.Assume("peers keep reading and acknowledge every delivery; persistent client ids are not reused within a history (offline behaviour is C08)")
	r.Assume("retained replays on subscribe: 1..k copies when k filters of the SUBSCRIBE match (per-filter replay is allowed)")
	nseq := r.Pick(120, 2500)
	h.Parallel(nseq, 8, func(i int) {
		rng := r.Rand(fmt.Sprintf("c06-seq-%d", i))
		hist := genHistory(rng, 20+rng.Intn(20))
		if i < 2 {
			r.Sample(map[string]interface{}{"sequential_history": fmt.Sprint(hist)})
		}
		runSequential(r, i, hist)
	})
	r.Count("sequential_histories", int64(nseq))
	nconc := r.Pick(40, 1000)
	h.Parallel(nconc, 4, func(i int) { runConcurrent(r, i) })
	r.Count("concurrent_runs", int64(nconc))
	nburst := r.Pick(15, 300)
	h.Parallel(nburst, 4, func(i int) { burst(r, i) })
	r.Count("burst_runs", int64(nburst))
	h.Exit(r.Finish(20))
}
