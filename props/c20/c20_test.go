// C20 — nothing is processed before an accepted CONNECT; every request gets
// its response. Monitors: wire byte recorder, per-connection backend hook
// trace, response multiset matching behind a FIFO fence.
package c20

import (
	"fmt"
	"math/rand"
	"sort"
	"strings"
	"testing"

	"github.com/256dpi/gomqtt/packet"

	"verif/internal/bh"
	"verif/internal/h"
	"verif/internal/ref"
	"verif/internal/wire"
)

const fenceID = 64999

// instance builds a well-formed packet of the given type.
func instance(t packet.Type, rng *rand.Rand, cred int) packet.Generic {
	id := packet.ID(1 + rng.Intn(5)) // small id space: repeats are intended
	if rng.Intn(6) == 0 {
		id = packet.ID(1 + rng.Intn(65535))
		if id == fenceID {
			id-- // the fence SUBSCRIBE must stay recognisable by its id
		}
	}
	switch t {
	case packet.CONNECT:
		c := &packet.Connect{ClientID: fmt.Sprintf("c20-%d", rng.Intn(1000000)), CleanSession: true, Version: 4,
			Will: &packet.Message{Topic: "will/c20", Payload: []byte("gone"), QOS: packet.QOS(rng.Intn(3)), Retain: rng.Intn(2) == 0}}
		switch cred {
		case 1:
			c.Username, c.Password = "user", "secret"
		case 2:
			c.Username, c.Password = "user", "wrong"
		case 3:
			c.Username = "nobody"
		}
		return c
	case packet.CONNACK:
		return &packet.Connack{ReturnCode: packet.ConnackCode(rng.Intn(6))}
	case packet.PUBLISH:
		p := &packet.Publish{Message: packet.Message{Topic: "pub/" + string(rune('a'+rng.Intn(3))), Payload: []byte("x"), QOS: packet.QOS(rng.Intn(3))}}
		if p.Message.QOS > 0 {
			p.ID = id
		}
		return p
	case packet.PUBACK:
		return &packet.Puback{ID: id}
	case packet.PUBREC:
		return &packet.Pubrec{ID: id}
	case packet.PUBREL:
		return &packet.Pubrel{ID: id}
	case packet.PUBCOMP:
		return &packet.Pubcomp{ID: id}
	case packet.SUBSCRIBE:
		s := &packet.Subscribe{ID: id}
		for k, n := 0, 1+rng.Intn(8); k < n; k++ {
			s.Subscriptions = append(s.Subscriptions, packet.Subscription{Topic: []string{"sub/a", "sub/+", "sub/#", "sub/b/c", "other"}[rng.Intn(5)], QOS: packet.QOS(rng.Intn(3))})
		}
		return s
	case packet.SUBACK:
		return &packet.Suback{ID: id, ReturnCodes: []packet.QOS{0}}
	case packet.UNSUBSCRIBE:
		u := &packet.Unsubscribe{ID: id}
		for k, n := 0, 1+rng.Intn(3); k < n; k++ {
			u.Topics = append(u.Topics, []string{"sub/a", "sub/+", "nothing"}[rng.Intn(3)])
		}
		return u
	case packet.UNSUBACK:
		return &packet.Unsuback{ID: id}
	case packet.PINGREQ:
		return &packet.Pingreq{}
	case packet.PINGRESP:
		return &packet.Pingresp{}
	}
	return &packet.Disconnect{}
}

// predict returns the expected responses (canonical strings) for a sequence,
// whether the broker closes the connection, and how many packets are processed.
func predict(seq []packet.Generic, credsConfigured bool) (resp []string, closes bool, accepted bool, authFailed bool) {
	first, ok := seq[0].(*packet.Connect)
	if !ok {
		return nil, true, false, false
	}
	if credsConfigured && !(first.Username == "user" && first.Password == "secret") {
		return []string{ref.Canon(&packet.Connack{ReturnCode: packet.NotAuthorized})}, true, false, true
	}
	resp = append(resp, ref.Canon(&packet.Connack{ReturnCode: 0}))
	incomingQ2 := map[packet.ID]bool{}
	for _, g := range seq[1:] {
		switch v := g.(type) {
		case *packet.Connect, *packet.Connack, *packet.Suback, *packet.Unsuback, *packet.Pingresp:
			return resp, true, true, false
		case *packet.Disconnect:
			return resp, true, true, false
		case *packet.Subscribe:
			sa := &packet.Suback{ID: v.ID}
			for _, s := range v.Subscriptions {
				sa.ReturnCodes = append(sa.ReturnCodes, s.QOS)
			}
			resp = append(resp, ref.Canon(sa))
		case *packet.Unsubscribe:
			resp = append(resp, ref.Canon(&packet.Unsuback{ID: v.ID}))
		case *packet.Pingreq:
			resp = append(resp, ref.Canon(&packet.Pingresp{}))
		case *packet.Publish:
			switch v.Message.QOS {
			case 1:
				resp = append(resp, ref.Canon(&packet.Puback{ID: v.ID}))
			case 2:
				resp = append(resp, ref.Canon(&packet.Pubrec{ID: v.ID}))
				incomingQ2[v.ID] = true
			}
		case *packet.Pubrec:
			resp = append(resp, ref.Canon(&packet.Pubrel{ID: v.ID}))
		case *packet.Pubrel:
			resp = append(resp, ref.Canon(&packet.Pubcomp{ID: v.ID}))
			delete(incomingQ2, v.ID)
		case *packet.Puback, *packet.Pubcomp:
			// acknowledgement for nothing outstanding: ignored
		}
	}
	return resp, false, true, false
}

func kinds(seq []packet.Generic) string {
	var ks []string
	for _, g := range seq {
		ks = append(ks, ref.Kind(g))
	}
	return strings.Join(ks, ",")
}

func runSeq(r *h.Run, label string, seq []packet.Generic, credsConfigured bool, rawFirst []byte) {
	r.Eval()
	b := bh.NewBroker()
	if credsConfigured {
		b.Mon.Inner.Credentials = map[string]string{"user": "secret"}
	}
	defer b.Shutdown()
	var brokerEnd *wire.End
	p, _ := b.Attach("t", func(fc *bh.FConn, be, pe *wire.End) { brokerEnd = be })
	defer p.Close()
	desc := fmt.Sprintf("%s [%s] creds=%t", label, kinds(seq), credsConfigured)
	var cs []string
	for _, g := range seq {
		cs = append(cs, ref.Canon(g))
	}
	r.Journal("C20 %s %v", desc, cs)
	fail := func(key, msg string) {
		r.Violation(key, desc+": "+msg, map[string]interface{}{"sequence": cs, "creds_configured": credsConfigured, "raw_first_hex": fmt.Sprintf("%x", rawFirst), "detail": msg, "event_log": b.Log.Dump(80)})
	}
	expect, closes, accepted, authFailed := predict(seq, credsConfigured)
	if rawFirst != nil {
		expect, closes, accepted, authFailed = nil, true, false, false
	}
	// one burst: the whole pipeline is written before any reply is read
	var burst []byte
	burst = append(burst, rawFirst...)
	for _, g := range seq {
		if rawFirst != nil {
			break
		}
		enc, _ := ref.Encode(g)
		burst = append(burst, enc...)
	}
	if !closes {
		enc, _ := ref.Encode(&packet.Subscribe{ID: fenceID, Subscriptions: []packet.Subscription{{Topic: "fence/c20", QOS: 0}}})
		burst = append(burst, enc...)
	}
	_ = p.SendRaw(burst, desc)
	if closes {
		if !p.WaitEOF(bh.Watchdog) {
			fail("not-closed", "the broker did not close the connection (watchdog)")
			return
		}
	} else {
		_, err := p.WaitFor(bh.Watchdog, func(g packet.Generic) bool { s, ok := g.(*packet.Suback); return ok && s.ID == fenceID })
		if err != nil {
			fail("fence-missing", fmt.Sprintf("the connection ended or stalled before the final fence SUBACK arrived: %v", err))
			return
		}
	}
	if err := p.ProtocolError(); err != nil {
		fail("malformed-from-broker", err.Error())
	}
	var got []string
	connacks := 0
	for i, g := range p.All() {
		if s, ok := g.(*packet.Suback); ok && s.ID == fenceID && !closes {
			continue
		}
		if _, ok := g.(*packet.Connack); ok {
			connacks++
			if i != 0 {
				fail("connack-not-first", "CONNACK was not the first packet written")
			}
		}
		got = append(got, ref.Canon(g))
	}
	if connacks > 1 {
		fail("connack-twice", fmt.Sprintf("%d CONNACKs were sent", connacks))
	}
	if closes {
		// hook trace and will are final only once the broker-side client is fully closed
		if !b.WaitClosed("t", bh.Watchdog) {
			r.Inconclusive(desc + ": broker-side client did not finish closing within the watchdog")
		}
	}
	ci := b.ClientOf("t")
	hooks := []string{}
	if ci != nil {
		snap := b.Mon.Snapshot(ci)
		hooks = snap.Hooks
		if !accepted && len(snap.Publishes) > 0 {
			fail("will-or-publish-before-accept", fmt.Sprintf("Backend.Publish was called %d times for a connection that was never accepted", len(snap.Publishes)))
		}
	}
	switch {
	case !accepted && !authFailed:
		if n := brokerEnd.WrittenLen(); n != 0 {
			fail("reply-before-connect", fmt.Sprintf("the broker wrote %d bytes (%v) to a connection whose first packet is not CONNECT", n, got))
		}
		if len(hooks) != 0 {
			fail("hooks-before-connect", fmt.Sprintf("backend hooks %v were invoked for a connection whose first packet is not CONNECT", hooks))
		}
	case authFailed:
		if fmt.Sprint(got) != fmt.Sprint(expect) {
			fail("auth-failure-reply", fmt.Sprintf("after failed authentication the broker sent %v, expected exactly %v", got, expect))
		}
		for _, hk := range hooks {
			if hk != "Authenticate" {
				fail("auth-failure-hooks", fmt.Sprintf("after failed authentication backend hooks %v were invoked", hooks))
				break
			}
		}
	case closes:
		// responses queued before the closing packet may be lost with the connection;
		// nothing unsolicited may appear
		if extra := minus(got, expect); len(extra) > 0 {
			fail("unsolicited", fmt.Sprintf("unsolicited packets %v (received %v, requests justify at most %v)", extra, got, expect))
		}
		if len(got) == 0 || got[0] != expect[0] {
			fail("connack-missing", fmt.Sprintf("accepted CONNECT was not answered by CONNACK first: %v", got))
		}
		// PINGRESP is written by the processor itself before it reads the next
		// packet, and closing flushes what was written: every PINGREQ in front of
		// the closing packet is answered
		pr := ref.Canon(&packet.Pingresp{})
		wantPing, gotPing := 0, 0
		for _, x := range expect {
			if x == pr {
				wantPing++
			}
		}
		for _, x := range got {
			if x == pr {
				gotPing++
			}
		}
		if gotPing < wantPing {
			fail("pingresp-missing-before-close", fmt.Sprintf("%d PINGREQ(s) preceded the closing packet, %d PINGRESP(s) arrived (received %v)", wantPing, gotPing, got))
		}
	default:
		if extra, missing := minus(got, expect), minus(expect, got); len(extra) > 0 || len(missing) > 0 {
			key := "response-mismatch"
			if len(missing) > 0 && len(extra) == 0 {
				key = "response-missing"
			}
			fail(key, fmt.Sprintf("responses differ from requests: missing %v, unsolicited %v", missing, extra))
		}
	}
	if len(seq) > 0 {
		if _, ok := seq[0].(*packet.Connect); !ok || (accepted && len(seq) > 1) || rawFirst != nil {
			r.NonTrivial(desc + fmt.Sprint(cs))
		}
	}
	r.Distinct("event_traces", b.Log.Trace())
}

// runFault: one backend hook fails at its first call while a client pipelines
// CONNECT, SUBSCRIBE, PUBLISH, PINGREQ and DISCONNECT. Whatever the backend
// does, the wire must show at most one CONNACK, as the first packet, nothing
// after a refusing one, and the connection must end.
func runFault(r *h.Run, f bh.HookFault, creds bool, rng *rand.Rand) {
	r.Eval()
	b := bh.NewBroker()
	cr := 0
	if creds {
		b.Mon.Inner.Credentials = map[string]string{"user": "secret"}
		cr = 1
	}
	b.Mon.AddFault(f)
	defer b.Shutdown()
	p, _ := b.Attach("t", nil)
	defer p.Close()
	seq := []packet.Generic{instance(packet.CONNECT, rng, cr), instance(packet.SUBSCRIBE, rng, 0), &packet.Publish{ID: 7, Message: packet.Message{Topic: "pub/a", QOS: 1, Payload: []byte("x")}}, &packet.Pingreq{}, &packet.Disconnect{}}
	desc := fmt.Sprintf("backend hook %s fails at its first call (before the inner call=%t) creds=%t [%s]", f.Hook, f.Before, creds, kinds(seq))
	r.Journal("C20 %s", desc)
	fail := func(key, msg string) {
		r.Violation(key, desc+": "+msg, map[string]interface{}{"fault": f.Hook, "before": f.Before, "creds_configured": creds, "detail": msg, "event_log": b.Log.Dump(80)})
	}
	var burst []byte
	for _, g := range seq {
		enc, _ := ref.Encode(g)
		burst = append(burst, enc...)
	}
	_ = p.SendRaw(burst, desc)
	if !p.WaitEOF(bh.Watchdog) {
		fail("not-closed", "the broker did not close the connection (watchdog)")
		return
	}
	if err := p.ProtocolError(); err != nil {
		fail("malformed-from-broker", err.Error())
	}
	connacks, refused := 0, -1
	var got []string
	for i, g := range p.All() {
		got = append(got, ref.Canon(g))
		if ca, ok := g.(*packet.Connack); ok {
			connacks++
			if i != 0 {
				fail("connack-not-first", fmt.Sprintf("CONNACK was not the first packet written: %v", got))
			}
			if ca.ReturnCode != packet.ConnectionAccepted && refused < 0 {
				refused = i
			}
		}
	}
	if connacks > 1 {
		fail("connack-twice", fmt.Sprintf("%d CONNACKs were sent: %v", connacks, got))
	}
	if refused >= 0 && len(got) > refused+1 {
		fail("packets-after-refusal", fmt.Sprintf("packets followed a refusing CONNACK: %v", got))
	}
	if connacks == 0 && len(got) > 0 {
		fail("reply-without-connack", fmt.Sprintf("packets were sent to a connection that never got a CONNACK: %v", got))
	}
	r.NonTrivial(fmt.Sprintf("fault/%s/%t/%t", f.Hook, f.Before, creds))
}

func minus(a, b []string) []string {
	cnt := map[string]int{}
	for _, x := range b {
		cnt[x]++
	}
	var out []string
	for _, x := range a {
		if cnt[x] > 0 {
			cnt[x]--
		} else {
			out = append(out, x)
		}
	}
	sort.Strings(out)
	return out
}

func TestCheck(t *testing.T) {
	r := h.New("C20", "exploration")
	r.Rule("all packet-kind sequences of length 1..3 over the 14 packet types (first, second, third packet) x {no credentials configured, valid, wrong password, unknown user} written in one burst, garbage and truncated first frames, and PRNG pipelines of up to 40 packets with small, repeating packet ids and 1-8 filters per SUBSCRIBE; oracle: zero bytes and zero backend hooks before an accepted CONNECT, exactly CONNACK(5) and only Authenticate after a failed authentication, closing packets close, response multiset = request multiset behind a final SUBSCRIBE fence through the ack queue, at most one CONNACK and first; the same pipelined session with every backend hook {Authenticate, Setup, Restore, Subscribe, Publish, Dequeue, Terminate} failing at its first call, before or after the inner call (at most one CONNACK, first, nothing after a refusing one, connection ends). Non-trivial = sequences whose first packet is not CONNECT, or accepted CONNECT followed by >= 1 packet; distinct by sequence content")
	r.Assume("acknowledgements that travel through the broker's ack queue (SUBACK, UNSUBACK, PUBACK, PUBCOMP) for requests that precede a connection-closing packet in the same burst may be lost with the connection; CONNACK and PINGRESP, which the processor writes itself, must still arrive; nothing unsolicited may appear")
	r.Exhaustive()
	types := packet.Types()
	type job struct {
		seq   []packet.Generic
		creds bool
		label string
	}
	var jobs []job
	rng := r.Rand("c20")
	// exhaustive kinds, length 1..3
	for _, t1 := range types {
		creds := []int{0}
		if t1 == packet.CONNECT {
			creds = []int{0, 1, 2, 3}
		}
		for _, cr := range creds {
			jobs = append(jobs, job{[]packet.Generic{instance(t1, rng, cr)}, cr != 0, "len1"})
			for _, t2 := range types {
				jobs = append(jobs, job{[]packet.Generic{instance(t1, rng, cr), instance(t2, rng, 1)}, cr != 0, "len2"})
				for _, t3 := range types {
					jobs = append(jobs, job{[]packet.Generic{instance(t1, rng, cr), instance(t2, rng, 1), instance(t3, rng, 1)}, cr != 0, "len3"})
				}
			}
		}
	}
	r.Count("kind_sequences", int64(len(jobs)))
	// random longer pipelines after an accepted CONNECT
	np := r.Pick(1500, 120000)
	for i := 0; i < np; i++ {
		seq := []packet.Generic{instance(packet.CONNECT, rng, i%2)}
		q2 := 0
		for k, n := 0, 1+rng.Intn(40); k < n; k++ {
			var g packet.Generic
			switch x := rng.Intn(20); {
			case x < 6:
				g = instance(packet.SUBSCRIBE, rng, 0)
			case x < 9:
				g = instance(packet.UNSUBSCRIBE, rng, 0)
			case x < 12:
				g = instance(packet.PINGREQ, rng, 0)
			case x < 16:
				g = instance(packet.PUBLISH, rng, 0)
				if g.(*packet.Publish).Message.QOS == 2 {
					q2++
					if q2 > 8 { // stay inside the publish-token window (no PUBREL follows)
						g.(*packet.Publish).Message.QOS = 1
					}
				}
			case x < 17:
				g = instance(packet.PUBREL, rng, 0)
			case x < 18:
				g = instance(packet.PUBREC, rng, 0)
			case x < 19:
				g = instance(packet.PUBACK, rng, 0)
			default:
				g = instance(packet.PUBCOMP, rng, 0)
			}
			seq = append(seq, g)
		}
		if i%10 == 0 {
			seq = append(seq, instance([]packet.Type{packet.CONNECT, packet.DISCONNECT, packet.SUBACK, packet.PINGRESP}[rng.Intn(4)], rng, 0))
		}
		jobs = append(jobs, job{seq, i%2 == 1, "pipeline"})
	}
	r.Sample(map[string]interface{}{"pipeline": kinds(jobs[len(jobs)-1].seq)})
	r.Sample(map[string]interface{}{"len3": kinds(jobs[200].seq), "creds_configured": jobs[200].creds})
	h.Parallel(len(jobs), 16, func(i int) {
		runSeq(r, jobs[i].label, jobs[i].seq, jobs[i].creds, nil)
	})
	// hostile first frames
	raws := [][]byte{{0x00, 0x00}, {0xf0, 0x00}, {0x10, 0x00}, {0x10, 0x02, 0x00, 0x04}, {0xff, 0xff, 0xff, 0xff, 0xff, 0xff}, {0x30, 0x02, 0x00, 0x00}, {0x10, 0x0c, 0x00, 0x04, 'M', 'Q', 'T', 'T', 0x05, 0x02, 0x00, 0x00, 0x00, 0x00},
		{0x11, 0x0c, 0x00, 0x04, 'M', 'Q', 'T', 'T', 0x04, 0x02, 0x00, 0x00, 0x00, 0x00}, {0x10, 0x0c, 0x00, 0x04, 'M', 'Q', 'T', 'T', 0x04, 0x03, 0x00, 0x00, 0x00, 0x00}}
	for i := 0; i < r.Pick(40, 600); i++ {
		raws = append(raws, func() []byte {
			b := make([]byte, 2+rng.Intn(30))
			rng.Read(b)
			if b[0]>>4 == 1 { // keep these away from being a CONNECT
				b[0] = 0x20 | b[0]&0x0f
			}
			b[1] = byte(len(b) - 2)
			return b
		}())
	}
	h.Parallel(len(raws), 16, func(i int) {
		runSeq(r, "raw-first-frame", []packet.Generic{&packet.Pingreq{}}, i%2 == 0, raws[i])
	})
	r.Count("raw_first_frames", int64(len(raws)))
	// backend failures at every hook while a client pipelines a whole session
	var hf []bh.HookFault
	for _, hk := range []string{"Authenticate", "Setup", "Restore", "Subscribe", "Publish", "Dequeue", "Terminate"} {
		hf = append(hf, bh.HookFault{Hook: hk, K: 1, Before: true}, bh.HookFault{Hook: hk, K: 1, Before: false})
	}
	reps := r.Pick(2, 20)
	for i := 0; i < len(hf)*2*reps; i++ {
		runFault(r, hf[i%len(hf)], (i/len(hf))%2 == 1, rng)
	}
	r.Count("backend_fault_sessions", int64(len(hf)*2*reps))
	h.Exit(r.Finish(100))
}
