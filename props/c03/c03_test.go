// C03 — stream framing: any fragmentation yields the same packets; wire bytes
// are exact; oversized packets are refused before buffering; truncated streams
// yield an error, never a packet.
package c03

import (
	"bytes"
	"errors"
	"fmt"
	"io"
	"net"
	"runtime"
	"strings"
	"sync"
	"testing"
	"time"

	"github.com/256dpi/gomqtt/packet"
	"github.com/256dpi/gomqtt/transport"
	"github.com/gorilla/websocket"

	"verif/internal/gen"
	"verif/internal/h"
	"verif/internal/ref"
	"verif/internal/wire"
)

// chunkReader returns the stream in the given chunk sizes (cycled), and can
// deliver the final chunk together with io.EOF.
type chunkReader struct {
	data    []byte
	cuts    []int // absolute offsets at which a Read must stop
	pos     int
	pulled  int
	eofWith bool
}

func (c *chunkReader) Read(b []byte) (int, error) {
	if c.pos >= len(c.data) {
		return 0, io.EOF
	}
	end := len(c.data)
	for _, cut := range c.cuts {
		if cut > c.pos {
			if cut < end {
				end = cut
			}
			break
		}
	}
	n := end - c.pos
	if n > len(b) {
		n = len(b)
	}
	copy(b, c.data[c.pos:c.pos+n])
	c.pos += n
	c.pulled += n
	if c.pos >= len(c.data) && c.eofWith {
		return n, io.EOF
	}
	return n, nil
}

func encodeAll(ps []packet.Generic) ([]byte, []int) {
	var out []byte
	var bounds []int
	for _, p := range ps {
		b, err := ref.Encode(p)
		if err != nil {
			panic(err)
		}
		out = append(out, b...)
		bounds = append(bounds, len(out))
	}
	return out, bounds
}

func canons(ps []packet.Generic) []string {
	out := make([]string, len(ps))
	for i, p := range ps {
		out[i] = ref.Canon(p)
	}
	return out
}

// insideHeader: does any cut fall inside a fixed header (type byte + length field)?
func insideHeader(cuts []int, bounds []int, stream []byte) bool {
	start := 0
	for _, b := range bounds {
		hd, _ := ref.ParseHeader(stream[start:b])
		for _, c := range cuts {
			if c > start && c < start+hd.HL {
				return true
			}
		}
		start = b
	}
	return false
}

func decodeStream(r *h.Run, label string, ps []packet.Generic, stream []byte, cuts []int, eofWith bool) {
	r.Eval()
	cr := &chunkReader{data: stream, cuts: cuts, eofWith: eofWith}
	dec := packet.NewDecoder(cr)
	want := canons(ps)
	fail := func(key, msg string) {
		r.Violation(key, fmt.Sprintf("%s: %d packets, %d bytes, cuts %v: %s", label, len(ps), len(stream), cuts, msg),
			map[string]interface{}{"packets": want, "stream_hex": h.Hex(stream), "cuts": cuts, "eof_with_data": eofWith, "detail": msg})
	}
	for i := 0; ; i++ {
		p, err := dec.Read()
		if err != nil {
			if i != len(want) {
				fail("decoder/short", fmt.Sprintf("Decoder.Read failed with %v after %d of %d packets", err, i, len(want)))
			} else if err != io.EOF {
				fail("decoder/end", fmt.Sprintf("after the last packet Decoder.Read returned %v instead of io.EOF", err))
			}
			return
		}
		if i >= len(want) {
			fail("decoder/extra", "Decoder.Read produced a packet beyond the sent sequence: "+ref.Canon(p))
			return
		}
		if got := ref.Canon(p); got != want[i] {
			fail("decoder/packet", fmt.Sprintf("packet %d differs: got %s want %s", i, got, want[i]))
			return
		}
	}
}

type recWriter struct {
	mu  sync.Mutex
	buf []byte
}

func (w *recWriter) Write(b []byte) (int, error) {
	w.mu.Lock()
	w.buf = append(w.buf, b...)
	w.mu.Unlock()
	return len(b), nil
}
func (w *recWriter) Len() int { w.mu.Lock(); defer w.mu.Unlock(); return len(w.buf) }
func (w *recWriter) Bytes() []byte {
	w.mu.Lock()
	defer w.mu.Unlock()
	return append([]byte(nil), w.buf...)
}

func waitLen(get func() int, want int, d time.Duration) bool {
	deadline := time.Now().Add(d)
	for time.Now().Before(deadline) {
		if get() >= want {
			return true
		}
		time.Sleep(200 * time.Microsecond)
	}
	return get() >= want
}

func TestCheck(t *testing.T) {
	r := h.New("C03", "exploration")
	r.Rule("packet sequences from the well-formed generator (sizes around the 4096-byte bufio boundary and around the read limit); Decoder: every single and every pair of split points for streams <= 96 bytes, PRNG chunk sizes for long streams, final chunk delivered with io.EOF, truncation at every offset of the last packet; read limit L-1/L/L+1 with pull and allocation counters; Encoder: every async/sync pattern of <= 6 sends x flush delay {0,1ms,5ms} x explicit/timer flush; BaseConn over the in-memory wire in both directions with chunked reads; raw fragmented TCP writes and WebSocket messages cut at every split point (short streams) or PRNG boundaries. Non-trivial = fragmentations with a boundary inside a fixed header; distinct by (stream hash, cut vector)")
	r.Assume("expected bytes come from the reference encoder internal/ref/codec.go")

	rng := r.Rand("c03")
	mkSeq := func(n int, small bool) []packet.Generic {
		var ps []packet.Generic
		for i := 0; i < n; i++ {
			if small {
				ps = append(ps, gen.Small(rng))
			} else {
				switch rng.Intn(4) {
				case 0:
					ps = append(ps, gen.Sized(rng, packet.PUBLISH, 4090+rng.Intn(12), rng.Intn(64)))
				case 1:
					ps = append(ps, gen.Sized(rng, packet.PUBLISH, 100+rng.Intn(20000), rng.Intn(64)))
				default:
					ps = append(ps, gen.Random(rng))
				}
			}
		}
		return ps
	}

	// ------------------------------------------------ A. decoder, exhaustive splits
	nshort := r.Pick(40, 600)
	type job struct {
		ps     []packet.Generic
		stream []byte
		bounds []int
	}
	var jobs []job
	for len(jobs) < nshort {
		ps := mkSeq(1+rng.Intn(4), true)
		s, b := encodeAll(ps)
		if len(s) > 96 || len(s) < 2 {
			continue
		}
		jobs = append(jobs, job{ps, s, b})
	}
	h.Parallel(len(jobs), 16, func(j int) {
		jb := jobs[j]
		n := len(jb.stream)
		decodeStream(r, "decoder whole", jb.ps, jb.stream, nil, false)
		for a := 1; a < n; a++ {
			decodeStream(r, "decoder 1 cut", jb.ps, jb.stream, []int{a}, a%2 == 0)
			if insideHeader([]int{a}, jb.bounds, jb.stream) {
				r.NonTrivial(fmt.Sprintf("%x|%d", jb.stream, a))
			}
			for b := a + 1; b < n; b++ {
				decodeStream(r, "decoder 2 cuts", jb.ps, jb.stream, []int{a, b}, false)
				if insideHeader([]int{a, b}, jb.bounds, jb.stream) {
					r.NonTrivial(fmt.Sprintf("%x|%d,%d", jb.stream, a, b))
				}
			}
		}
		// byte-by-byte
		var all []int
		for a := 1; a < n; a++ {
			all = append(all, a)
		}
		decodeStream(r, "decoder byte-wise", jb.ps, jb.stream, all, true)
		// truncation at every offset of the last packet: an error, never a packet, never a clean EOF
		lastStart := 0
		if len(jb.bounds) > 1 {
			lastStart = jb.bounds[len(jb.bounds)-2]
		}
		for cut := lastStart + 1; cut < n; cut++ {
			r.Eval()
			dec := packet.NewDecoder(&chunkReader{data: jb.stream[:cut], cuts: []int{lastStart}, eofWith: cut%2 == 1})
			for i := 0; i < len(jb.ps)-1; i++ {
				if _, err := dec.Read(); err != nil {
					r.Violation("decoder/short", fmt.Sprintf("truncated stream: packet %d before the truncated one failed: %v", i, err), map[string]interface{}{"stream_hex": h.Hex(jb.stream), "cut": cut})
				}
			}
			p, err := dec.Read()
			if err == nil {
				r.Violation("truncation/packet", fmt.Sprintf("stream cut at byte %d of %d (inside the last packet) still produced %s", cut, n, ref.Canon(p)), map[string]interface{}{"stream_hex": h.Hex(jb.stream), "cut": cut})
			} else if err == io.EOF {
				r.Violation("truncation/clean-eof", fmt.Sprintf("stream cut at byte %d of %d (inside the last packet) produced a clean io.EOF", cut, n), map[string]interface{}{"stream_hex": h.Hex(jb.stream), "cut": cut})
			}
		}
	})
	r.Count("short_streams_exhaustive_cuts", int64(len(jobs)))
	r.Sample(map[string]interface{}{"short_stream_hex": h.Hex(jobs[0].stream), "packets": canons(jobs[0].ps), "cuts": "every single and pair of split points"})

	// long streams, PRNG chunk sizes
	nlong := r.Pick(60, 1500)
	h.Parallel(nlong, 16, func(i int) {
		lr := r.Rand(fmt.Sprintf("c03-long-%d", i))
		var ps []packet.Generic
		for k, n := 0, 1+lr.Intn(12); k < n; k++ {
			switch lr.Intn(5) {
			case 0:
				ps = append(ps, gen.Sized(lr, packet.PUBLISH, 4085+lr.Intn(20), lr.Intn(64)))
			case 1:
				ps = append(ps, gen.Sized(lr, packet.PUBLISH, 8180+lr.Intn(20), lr.Intn(64)))
			case 2:
				ps = append(ps, gen.Sized(lr, packet.SUBSCRIBE, 200+lr.Intn(9000), 16+lr.Intn(16)))
			default:
				ps = append(ps, gen.Random(lr))
			}
		}
		s, b := encodeAll(ps)
		maxChunk := []int{1, 2, 3, 7, 100, 4095, 4096, 4097, 10000}[lr.Intn(9)]
		var cuts []int
		for pos := 0; pos < len(s); {
			pos += 1 + lr.Intn(maxChunk)
			if pos < len(s) {
				cuts = append(cuts, pos)
			}
		}
		decodeStream(r, "decoder long", ps, s, cuts, lr.Intn(2) == 0)
		if insideHeader(cuts, b, s) {
			r.NonTrivial(fmt.Sprintf("long:%d:%d:%d", i, len(s), maxChunk))
		}
		if i == 0 {
			r.Sample(map[string]interface{}{"long_stream_bytes": len(s), "packets": len(ps), "max_chunk": maxChunk, "cuts": len(cuts)})
		}
	})
	r.Count("long_streams", int64(nlong))

	// ------------------------------------------------ B. read limit
	for _, L := range []int{64, 4096, 70000} {
		for d := -1; d <= 1; d++ {
			r.Eval()
			total := L + d
			p := gen.Sized(rng, packet.PUBLISH, total-headerLenFor(total), 1)
			b, _ := ref.Encode(p)
			if len(b) != total {
				r.Violation("harness", fmt.Sprintf("generator produced %d bytes instead of %d", len(b), total), nil)
				continue
			}
			stream := append(append([]byte(nil), b...), b...)
			cr := &chunkReader{data: stream}
			dec := packet.NewDecoder(cr)
			dec.SetReadLimit(int64(L))
			_, err := dec.Read()
			if total <= L && err != nil {
				r.Violation("limit/refuses-allowed", fmt.Sprintf("packet of %d bytes refused with limit %d: %v", total, L, err), nil)
			}
			if total > L {
				if !errors.Is(err, packet.ErrReadLimitExceeded) {
					r.Violation("limit/not-enforced", fmt.Sprintf("packet of %d bytes with limit %d: Read returned %v", total, L, err), nil)
				} else if cr.pulled > 4096+5 {
					r.Violation("limit/buffered-before-refusal", fmt.Sprintf("%d bytes had been pulled from the connection when the %d-byte packet was refused", cr.pulled, total), nil)
				}
			}
		}
	}
	{
		// declared 200 MiB against a 1 MiB limit: must be refused without allocating or pulling the body
		r.Eval()
		hdr := append([]byte{0x30}, varint(200<<20)...)
		src := &endless{head: hdr}
		dec := packet.NewDecoder(src)
		dec.SetReadLimit(1 << 20)
		runtime.GC()
		var m0, m1 runtime.MemStats
		runtime.ReadMemStats(&m0)
		_, err := dec.Read()
		runtime.ReadMemStats(&m1)
		alloc := m1.TotalAlloc - m0.TotalAlloc
		if !errors.Is(err, packet.ErrReadLimitExceeded) {
			r.Violation("limit/not-enforced", fmt.Sprintf("200 MiB packet with 1 MiB limit: Read returned %v", err), nil)
		}
		if src.pulled > 8192 || alloc > 1<<20 {
			r.Violation("limit/buffered-before-refusal", fmt.Sprintf("refusing a 200 MiB packet pulled %d bytes and allocated %d bytes", src.pulled, alloc), nil)
		}
		r.Set("limit_probe", map[string]interface{}{"declared": 200 << 20, "limit": 1 << 20, "pulled_bytes": src.pulled, "allocated_bytes": alloc})
	}

	// ------------------------------------------------ C. encoder patterns
	nenc := r.Pick(30, 300)
	h.Parallel(nenc, 8, func(i int) {
		er := r.Rand(fmt.Sprintf("c03-enc-%d", i))
		n := 1 + er.Intn(6)
		var ps []packet.Generic
		for k := 0; k < n; k++ {
			if er.Intn(4) == 0 {
				ps = append(ps, gen.Sized(er, packet.PUBLISH, 4088+er.Intn(16), er.Intn(64)))
			} else {
				ps = append(ps, gen.Small(er))
			}
		}
		want, _ := encodeAll(ps)
		for mask := 0; mask < 1<<uint(n); mask++ {
			for _, delay := range []time.Duration{0, time.Millisecond, 5 * time.Millisecond} {
				for _, explicit := range []bool{false, true} {
					r.Eval()
					w := &recWriter{}
					enc := packet.NewEncoder(w)
					enc.SetMaxWriteDelay(delay)
					desc := fmt.Sprintf("encoder: %d packets, async mask %b, delay %v, explicit flush %t", n, mask, delay, explicit)
					for k, p := range ps {
						if err := enc.Write(p, mask&(1<<uint(k)) != 0); err != nil {
							r.Violation("encoder/error", desc+": "+err.Error(), nil)
						}
					}
					if explicit {
						if err := enc.Flush(); err != nil {
							r.Violation("encoder/error", desc+": Flush: "+err.Error(), nil)
						}
					}
					if !waitLen(w.Len, len(want), 10*time.Second) {
						r.Violation("encoder/lost", fmt.Sprintf("%s: only %d of %d bytes reached the writer within 10s", desc, w.Len(), len(want)), map[string]interface{}{"packets": canons(ps)})
						continue
					}
					if got := w.Bytes(); !bytes.Equal(got, want) {
						r.Violation("encoder/bytes", fmt.Sprintf("%s: bytes on the writer differ from the concatenation of the encodings (len %d vs %d, first difference at %d)", desc, len(got), len(want), firstDiff(got, want)),
							map[string]interface{}{"packets": canons(ps), "got_hex": h.Hex(got), "want_hex": h.Hex(want)})
					}
					if mask != 0 && mask != 1<<uint(n)-1 {
						r.NonTrivial(fmt.Sprintf("enc:%d:%b:%v:%t", i, mask, delay, explicit))
					}
				}
			}
		}
	})
	r.Count("encoder_sequences", int64(nenc))

	// ------------------------------------------------ D. BaseConn over the wire, both directions
	nconn := r.Pick(150, 3000)
	h.Parallel(nconn, 8, func(i int) {
		cr := r.Rand(fmt.Sprintf("c03-conn-%d", i))
		a, b := wire.Pair()
		ca, cb := wire.NewConn(a), wire.NewConn(b)
		ca.SetMaxWriteDelay([]time.Duration{0, time.Millisecond, 3 * time.Millisecond}[cr.Intn(3)])
		cb.SetMaxWriteDelay([]time.Duration{0, time.Millisecond}[cr.Intn(2)])
		maxA, maxB := 1+cr.Intn(9), 1+cr.Intn(5000)
		a.SetChunker(func(int) int { return maxA })
		b.SetChunker(func(int) int { return maxB })
		mk := func() []packet.Generic {
			var ps []packet.Generic
			for k, n := 0, 1+cr.Intn(10); k < n; k++ {
				if cr.Intn(6) == 0 {
					ps = append(ps, gen.Sized(cr, packet.PUBLISH, 4080+cr.Intn(30), cr.Intn(64)))
				} else {
					ps = append(ps, gen.Small(cr))
				}
			}
			return ps
		}
		sa, sb := mk(), mk()
		flagsA, flagsB := cr.Int63(), cr.Int63()
		var wg sync.WaitGroup
		send := func(c *wire.Conn, ps []packet.Generic, flags int64, name string) {
			defer wg.Done()
			for k, p := range ps {
				if err := c.Send(p, flags&(1<<uint(k)) != 0); err != nil {
					r.Violation("conn/send-error", fmt.Sprintf("%s Send #%d failed: %v", name, k, err), nil)
					return
				}
			}
		}
		recv := func(c *wire.Conn, want []packet.Generic, name string) {
			defer wg.Done()
			for k := range want {
				p, err := c.Receive()
				if err != nil {
					r.Violation("conn/receive", fmt.Sprintf("%s Receive #%d of %d failed: %v", name, k, len(want), err), map[string]interface{}{"sent": canons(want)})
					return
				}
				if ref.Canon(p) != ref.Canon(want[k]) {
					r.Violation("conn/packet", fmt.Sprintf("%s received %s, sent %s", name, ref.Canon(p), ref.Canon(want[k])), nil)
					return
				}
			}
		}
		wg.Add(4)
		go send(ca, sa, flagsA, "A")
		go send(cb, sb, flagsB, "B")
		go recv(cb, sa, "B")
		go recv(ca, sb, "A")
		done := make(chan struct{})
		go func() { wg.Wait(); close(done) }()
		select {
		case <-done:
		case <-time.After(30 * time.Second):
			r.Inconclusive("BaseConn exchange did not finish within 30s")
			_ = ca.Close()
			_ = cb.Close()
			return
		}
		_ = ca.Close()
		_ = cb.Close()
		wa, _ := encodeAll(sa)
		wb, _ := encodeAll(sb)
		if !bytes.Equal(a.Written(), wa) || !bytes.Equal(b.Written(), wb) {
			r.Violation("conn/wire-bytes", fmt.Sprintf("bytes on the wire are not the concatenation of the encodings (A: %d vs %d, B: %d vs %d)", len(a.Written()), len(wa), len(b.Written()), len(wb)), map[string]interface{}{"a_sent": canons(sa)})
		}
		r.Eval()
		r.NonTrivial(fmt.Sprintf("conn:%d:%d:%d", i, maxA, maxB))
	})
	r.Count("baseconn_exchanges", int64(nconn))

	// ------------------------------------------------ E. TCP loopback
	tcpAndWS(r, rng)

	h.Exit(r.Finish(200))
}

type endless struct {
	head   []byte
	pos    int
	pulled int
}

func (e *endless) Read(b []byte) (int, error) {
	n := 0
	for n < len(b) && e.pos < len(e.head) {
		b[n] = e.head[e.pos]
		n++
		e.pos++
	}
	for ; n < len(b); n++ {
		b[n] = 'x'
	}
	e.pulled += n
	return n, nil
}

func headerLenFor(total int) int {
	// header length of a packet whose total length is `total`
	for hl := 2; hl <= 5; hl++ {
		rl := total - hl
		if len(varint(rl)) == hl-1 {
			return hl
		}
	}
	return 2
}

func varint(n int) []byte {
	var b []byte
	for {
		d := byte(n % 128)
		n /= 128
		if n > 0 {
			d |= 0x80
		}
		b = append(b, d)
		if n == 0 {
			return b
		}
	}
}

func firstDiff(a, b []byte) int {
	for i := 0; i < len(a) && i < len(b); i++ {
		if a[i] != b[i] {
			return i
		}
	}
	return -1
}

func tcpAndWS(r *h.Run, rng interface{ Intn(int) int }) {
	// TCP
	srv, err := transport.Launch("tcp://127.0.0.1:0")
	if err != nil {
		r.Inconclusive("cannot launch a TCP loopback server: " + err.Error())
		return
	}
	defer srv.Close()
	ntcp := r.Pick(40, 600)
	for i := 0; i < ntcp; i++ {
		tr := r.Rand(fmt.Sprintf("c03-tcp-%d", i))
		var ps []packet.Generic
		for k, n := 0, 1+tr.Intn(6); k < n; k++ {
			if tr.Intn(5) == 0 {
				ps = append(ps, gen.Sized(tr, packet.PUBLISH, 4085+tr.Intn(20), tr.Intn(64)))
			} else {
				ps = append(ps, gen.Small(tr))
			}
		}
		stream, bounds := encodeAll(ps)
		raw, err := net.Dial("tcp", srv.Addr().String())
		if err != nil {
			r.Inconclusive("tcp dial: " + err.Error())
			return
		}
		raw.(*net.TCPConn).SetNoDelay(true)
		conn, err := srv.Accept()
		if err != nil {
			r.Inconclusive("tcp accept: " + err.Error())
			return
		}
		var cuts []int
		maxChunk := []int{1, 2, 5, 50, 5000}[tr.Intn(5)]
		go func() {
			for pos := 0; pos < len(stream); {
				n := 1 + tr.Intn(maxChunk)
				if pos+n > len(stream) {
					n = len(stream) - pos
				}
				raw.Write(stream[pos : pos+n])
				pos += n
				if maxChunk <= 5 && pos%7 == 0 {
					time.Sleep(50 * time.Microsecond)
				}
			}
		}()
		_ = cuts
		conn.SetReadTimeout(20 * time.Second)
		limit := 0
		if i%2 == 1 {
			// the limit equals the largest packet: every packet must still arrive
			limit = maxLen(bounds)
			conn.SetReadLimit(int64(limit))
		}
		for k := range ps {
			p, err := conn.Receive()
			if err != nil {
				r.Violation("tcp/receive", fmt.Sprintf("TCP: Receive #%d of %d failed: %v (chunks <= %d, read limit %d, largest packet %d)", k, len(ps), err, maxChunk, limit, maxLen(bounds)), map[string]interface{}{"sent": canons(ps)})
				break
			}
			if ref.Canon(p) != ref.Canon(ps[k]) {
				r.Violation("tcp/packet", fmt.Sprintf("TCP: received %s, sent %s", ref.Canon(p), ref.Canon(ps[k])), nil)
				break
			}
		}
		// reverse direction: the library sends, the raw socket reads bytes
		go func() {
			for k, p := range ps {
				_ = conn.Send(p, k%2 == 0)
			}
			_ = conn.Close()
		}()
		raw.SetReadDeadline(time.Now().Add(20 * time.Second))
		got, _ := io.ReadAll(raw)
		if !bytes.Equal(got, stream) {
			r.Violation("tcp/wire-bytes", fmt.Sprintf("TCP: %d bytes on the wire, expected %d (first difference at %d)", len(got), len(stream), firstDiff(got, stream)), map[string]interface{}{"sent": canons(ps)})
		}
		raw.Close()
		r.Eval()
		_ = bounds
		r.NonTrivial(fmt.Sprintf("tcp:%d:%d", i, maxChunk))
	}
	r.Count("tcp_exchanges", int64(ntcp))

	// WebSocket
	ws, err := transport.Launch("ws://127.0.0.1:0")
	if err != nil {
		r.Inconclusive("cannot launch a WebSocket loopback server: " + err.Error())
		return
	}
	defer ws.Close()
	nws := r.Pick(25, 300)
	for i := 0; i < nws; i++ {
		wr := r.Rand(fmt.Sprintf("c03-ws-%d", i))
		var ps []packet.Generic
		small := i%2 == 0
		for k, n := 0, 1+wr.Intn(4); k < n; k++ {
			if !small && wr.Intn(3) == 0 {
				ps = append(ps, gen.Sized(wr, packet.PUBLISH, 4085+wr.Intn(20), wr.Intn(64)))
			} else {
				ps = append(ps, gen.Small(wr))
			}
		}
		stream, bounds := encodeAll(ps)
		var cutSets [][]int
		if len(stream) <= 60 {
			cutSets = append(cutSets, nil)
			for a := 1; a < len(stream); a++ {
				cutSets = append(cutSets, []int{a})
			}
			for k := 0; k < 20; k++ {
				a := 1 + wr.Intn(len(stream)-1)
				b := 1 + wr.Intn(len(stream)-1)
				if a < b {
					cutSets = append(cutSets, []int{a, b})
				}
			}
		} else {
			for k := 0; k < 4; k++ {
				var cuts []int
				maxChunk := []int{1, 3, 40, 5000}[k]
				for pos := 0; pos < len(stream); {
					pos += 1 + wr.Intn(maxChunk)
					if pos < len(stream) {
						cuts = append(cuts, pos)
					}
				}
				cutSets = append(cutSets, cuts)
			}
		}
		for ci, cuts := range cutSets {
			client, _, err := websocket.DefaultDialer.Dial("ws://"+ws.Addr().String()+"/", nil)
			if err != nil {
				r.Inconclusive("ws dial: " + err.Error())
				return
			}
			conn, err := ws.Accept()
			if err != nil {
				r.Inconclusive("ws accept: " + err.Error())
				return
			}
			go func() {
				prev := 0
				for _, c := range append(append([]int(nil), cuts...), len(stream)) {
					client.WriteMessage(websocket.BinaryMessage, stream[prev:c])
					prev = c
				}
			}()
			conn.SetReadTimeout(20 * time.Second)
			limit := 0
			if (i/2+ci)%2 == 1 {
				// the limit equals the largest packet: every packet must still
				// arrive however the packets are spread over messages
				limit = maxLen(bounds)
				conn.SetReadLimit(int64(limit))
			}
			ok := true
			for k := range ps {
				p, err := conn.Receive()
				if err != nil {
					r.Violation("ws/receive", fmt.Sprintf("WebSocket: Receive #%d of %d failed: %v (message boundaries %v of %d bytes, read limit %d, largest packet %d)", k, len(ps), err, cuts, len(stream), limit, maxLen(bounds)), map[string]interface{}{"sent": canons(ps), "stream_hex": h.Hex(stream)})
					ok = false
					break
				}
				if ref.Canon(p) != ref.Canon(ps[k]) {
					r.Violation("ws/packet", fmt.Sprintf("WebSocket: received %s, sent %s (boundaries %v)", ref.Canon(p), ref.Canon(ps[k]), cuts), nil)
					ok = false
					break
				}
			}
			if ok {
				// reverse direction
				go func() {
					for k, p := range ps {
						_ = conn.Send(p, k%2 == 1)
					}
					_ = conn.Close()
				}()
				var got []byte
				client.SetReadDeadline(time.Now().Add(20 * time.Second))
				for {
					mt, data, err := client.ReadMessage()
					if err != nil {
						break
					}
					if mt != websocket.BinaryMessage {
						r.Violation("ws/message-type", "the library sent a non-binary WebSocket message", nil)
					}
					got = append(got, data...)
				}
				if !bytes.Equal(got, stream) {
					r.Violation("ws/wire-bytes", fmt.Sprintf("WebSocket: %d payload bytes sent, expected %d", len(got), len(stream)), map[string]interface{}{"sent": canons(ps)})
				}
			} else {
				_ = conn.Close()
			}
			client.Close()
			r.Eval()
			if insideHeader(cuts, bounds, stream) {
				r.NonTrivial(fmt.Sprintf("ws:%x:%v", stream[:min(len(stream), 16)], cuts))
			}
		}
	}
	// packets within the limit followed by one beyond it, in one message or
	// several: the good ones arrive, the oversized one is refused
	nover := r.Pick(12, 120)
	for i := 0; i < nover; i++ {
		wr := r.Rand(fmt.Sprintf("c03-ws-over-%d", i))
		var ps []packet.Generic
		for k, n := 0, 1+wr.Intn(3); k < n; k++ {
			ps = append(ps, gen.Small(wr))
		}
		stream, bounds := encodeAll(ps)
		limit := maxLen(bounds)
		rl := limit - 2 + wr.Intn(3) // total length limit+1 .. limit+3 with a one-byte length field
		if rl < 6 {
			rl = 6 + wr.Intn(3)
		}
		over, _ := ref.Encode(gen.Sized(wr, packet.PUBLISH, rl, wr.Intn(64)))
		if len(over) <= limit {
			over, _ = ref.Encode(gen.Sized(wr, packet.PUBLISH, rl+3, wr.Intn(64)))
		}
		full := append(append([]byte(nil), stream...), over...)
		var cuts []int
		switch i % 3 {
		case 1:
			cuts = append(cuts, bounds...)
		case 2:
			for pos := 0; pos < len(full); {
				pos += 1 + wr.Intn(9)
				if pos < len(full) {
					cuts = append(cuts, pos)
				}
			}
		}
		client, _, err := websocket.DefaultDialer.Dial("ws://"+ws.Addr().String()+"/", nil)
		if err != nil {
			r.Inconclusive("ws dial: " + err.Error())
			return
		}
		conn, err := ws.Accept()
		if err != nil {
			r.Inconclusive("ws accept: " + err.Error())
			return
		}
		conn.SetReadLimit(int64(limit))
		go func() {
			prev := 0
			for _, c := range append(append([]int(nil), cuts...), len(full)) {
				client.WriteMessage(websocket.BinaryMessage, full[prev:c])
				prev = c
			}
		}()
		conn.SetReadTimeout(20 * time.Second)
		ok := true
		for k := range ps {
			p, err := conn.Receive()
			if err != nil {
				r.Violation("ws/receive-before-oversized", fmt.Sprintf("WebSocket: Receive #%d of %d failed: %v although only the last packet (%d bytes) exceeds the read limit %d (message boundaries %v of %d bytes)", k, len(ps), err, len(over), limit, cuts, len(full)), map[string]interface{}{"sent": canons(ps), "stream_hex": h.Hex(full)})
				ok = false
				break
			}
			if ref.Canon(p) != ref.Canon(ps[k]) {
				r.Violation("ws/packet", fmt.Sprintf("WebSocket: received %s, sent %s (boundaries %v)", ref.Canon(p), ref.Canon(ps[k]), cuts), nil)
				ok = false
				break
			}
		}
		if ok {
			p, err := conn.Receive()
			if err == nil {
				r.Violation("ws/oversized-accepted", fmt.Sprintf("WebSocket: a %d-byte packet was delivered (%s) with read limit %d", len(over), ref.Canon(p), limit), nil)
			} else if !errors.Is(err, packet.ErrReadLimitExceeded) {
				r.Violation("ws/oversized-error", fmt.Sprintf("WebSocket: a %d-byte packet with read limit %d failed with %v, not ErrReadLimitExceeded", len(over), limit, err), nil)
			}
		}
		client.Close()
		conn.Close()
		r.Eval()
		r.NonTrivial(fmt.Sprintf("ws-over:%d:%d", i%3, len(ps)))
	}
	r.Count("ws_oversized_exchanges", int64(nover))

	// a text message must produce an error
	{
		client, _, err := websocket.DefaultDialer.Dial("ws://"+ws.Addr().String()+"/", nil)
		if err == nil {
			conn, _ := ws.Accept()
			b, _ := ref.Encode(&packet.Pingreq{})
			client.WriteMessage(websocket.TextMessage, b)
			conn.SetReadTimeout(10 * time.Second)
			if p, err := conn.Receive(); err == nil {
				r.Violation("ws/text-accepted", "a text WebSocket message was decoded as "+ref.Canon(p), nil)
			} else if !strings.Contains(err.Error(), "not binary") {
				r.Count("ws_text_other_error", 1)
			}
			client.Close()
			conn.Close()
		}
	}
	r.Count("ws_exchanges", int64(nws))
}

// maxLen returns the length of the longest packet given the packet boundaries
// of a stream.
func maxLen(bounds []int) int {
	m, prev := 0, 0
	for _, b := range bounds {
		if b-prev > m {
			m = b - prev
		}
		prev = b
	}
	return m
}

func min(a, b int) int {
	if a < b {
		return a
	}
	return b
}
