// C02 — decoder is total, memory-safe, local and spec-faithful on arbitrary bytes.
// Monitor: differential against the independent reference decoder, panic trap,
// locality probe (framed vs framed+junk), ownership probe (overwrite the source
// buffer / reuse the stream pool), re-encodability of admitted messages.
package c02

import (
	"bytes"
	"fmt"
	"io"
	"sync/atomic"
	"testing"

	"github.com/256dpi/gomqtt/packet"

	"verif/internal/gen"
	"verif/internal/h"
	"verif/internal/ref"
)

var (
	nAccepted, nRejected, nReached int64
	junkA                          = []byte{0x00, 0x00, 0x00, 0x00, 0x00, 0x00, 0x00, 0x00, 0x00}
	junkB                          = []byte{0xff, 0x7f, 0x41, 0x42, 0x43, 0x44, 0x30, 0x02, 0x00, 0x01, 0x61}
	bigPkt                         []byte
)

type outcome struct {
	ok    bool
	canon string
	n     int
	err   string
	pkt   packet.Generic
}

func libDecode(t packet.Type, buf []byte) (o outcome, panicked interface{}) {
	defer func() {
		if e := recover(); e != nil {
			panicked = e
		}
	}()
	p, err := t.New()
	if err != nil {
		return outcome{err: err.Error()}, nil
	}
	n, err := p.Decode(buf)
	o.n = n
	if err != nil {
		o.err = err.Error()
		return o, nil
	}
	o.ok, o.canon, o.pkt = true, ref.Canon(p), p
	return o, nil
}

func checkInput(r *h.Run, in []byte, origin string) {
	r.Eval()
	fail := func(key, msg string) {
		r.Violation(key, fmt.Sprintf("%s: input %s: %s", origin, h.Hex(in), msg), map[string]interface{}{"origin": origin, "input_hex": fmt.Sprintf("%x", clip(in)), "detail": msg})
	}
	// ---- detection
	var dn int
	var dt packet.Type
	func() {
		defer func() {
			if e := recover(); e != nil {
				fail("panic/detect", fmt.Sprintf("DetectPacket panicked: %v", e))
			}
		}()
		dn, dt = packet.DetectPacket(in)
	}()
	hd, herr := ref.ParseHeader(in)
	switch {
	case herr == ref.ErrShort:
		if dn != 0 {
			fail("detect", fmt.Sprintf("DetectPacket returned length %d for an incomplete header", dn))
		}
	case herr == nil:
		if dn != hd.HL+hd.RL || byte(dt) != hd.Type {
			fail("detect", fmt.Sprintf("DetectPacket returned (%d,%d), header says (%d,%d)", dn, dt, hd.HL+hd.RL, hd.Type))
		}
	}
	if len(in) == 0 {
		return
	}
	t := packet.Type(in[0] >> 4)
	kind := t.String()
	if !t.Valid() {
		// Decoder must refuse
		streamCheck(r, in, nil, false, kind, fail)
		return
	}
	atomic.AddInt64(&nReached, 1)

	// ---- whole input as given (embedded / truncated view)
	whole, pw := libDecode(t, in)
	if pw != nil {
		fail("panic/"+kind, fmt.Sprintf("Decode panicked: %v", pw))
		return
	}
	if whole.n > len(in) || whole.n < 0 {
		fail("consumed/"+kind, fmt.Sprintf("Decode reported %d bytes consumed of %d supplied", whole.n, len(in)))
	}
	if herr != nil || hd.HL+hd.RL > len(in) {
		// no complete packet in the input: nothing may be accepted
		if whole.ok {
			fail("accept-mismatch/"+kind+"/lib-accepts-incomplete", fmt.Sprintf("Decode accepted %s although the input does not hold a complete packet (header error: %v)", whole.canon, herr))
		} else {
			r.NonTrivial(kind + "/rejected/incomplete")
		}
		streamCheck(r, in, nil, false, kind, fail)
		return
	}
	total := hd.HL + hd.RL
	framed := append([]byte(nil), in[:total]...)
	want, rerr := ref.Decode(framed)
	wantCanon := ""
	if rerr == nil {
		wantCanon = ref.Canon(want)
	}

	// ---- framed, framed+junk A, framed+junk B, and the input as given
	views := []struct {
		name string
		buf  []byte
	}{
		{"framed", framed},
		{"framed+junkA", append(append([]byte(nil), framed...), junkA...)},
		{"framed+junkB", append(append([]byte(nil), framed...), junkB...)},
	}
	var first outcome
	for i, v := range views {
		o, p := libDecode(t, v.buf)
		if p != nil {
			fail("panic/"+kind, fmt.Sprintf("Decode(%s) panicked: %v", v.name, p))
			return
		}
		if o.n > len(v.buf) {
			fail("consumed/"+kind, fmt.Sprintf("Decode(%s) reported %d bytes consumed of %d", v.name, o.n, len(v.buf)))
		}
		if i == 0 {
			first = o
			if o.ok != (rerr == nil) {
				if o.ok {
					fail("accept-mismatch/"+kind+"/lib-accepts/"+rerr.Error(), fmt.Sprintf("Decode accepted %s, the reference decoder rejects: %v", o.canon, rerr))
				} else {
					fail("accept-mismatch/"+kind+"/lib-rejects", fmt.Sprintf("Decode rejected (%s), the reference decoder accepts %s", o.err, wantCanon))
				}
			} else if o.ok && o.canon != wantCanon {
				fail("field-mismatch/"+kind, fmt.Sprintf("Decode returned %s, reference %s", o.canon, wantCanon))
			}
			if o.ok && rerr == nil && o.n != total {
				fail("consumed/"+kind, fmt.Sprintf("Decode of the framed packet consumed %d of %d bytes", o.n, total))
			}
			continue
		}
		if o.ok != first.ok || o.canon != first.canon || (o.ok && o.n != first.n) {
			fail("locality/"+kind, fmt.Sprintf("Decode(%s) = (ok=%t %s n=%d err=%q) but Decode(framed) = (ok=%t %s n=%d err=%q): the result depends on bytes after the packet", v.name, o.ok, o.canon, o.n, o.err, first.ok, first.canon, first.n, first.err))
		}
	}
	if whole.ok != first.ok || whole.canon != first.canon {
		fail("locality/"+kind, fmt.Sprintf("Decode(input as given, %d bytes) = (ok=%t %s) but Decode(framed to %d bytes) = (ok=%t %s)", len(in), whole.ok, whole.canon, total, first.ok, first.canon))
	}
	if first.ok {
		atomic.AddInt64(&nAccepted, 1)
		r.NonTrivial(kind + "/accepted/" + fieldClass(first.pkt))
	} else {
		atomic.AddInt64(&nRejected, 1)
		r.NonTrivial(kind + "/rejected/" + errClass(first.err))
	}

	// ---- ownership: overwrite the source buffer after a successful decode
	if first.ok {
		buf := append([]byte(nil), framed...)
		o, _ := libDecode(t, buf)
		for i := range buf {
			buf[i] = 0xFF
		}
		if o.ok && ref.Canon(o.pkt) != first.canon {
			fail("ownership/"+kind, fmt.Sprintf("decoded packet changed after the source buffer was overwritten: %s -> %s", first.canon, ref.Canon(o.pkt)))
		}
		// ---- re-encodability of admitted application messages
		switch v := first.pkt.(type) {
		case *packet.Publish:
			if _, err := v.Encode(make([]byte, v.Len())); err != nil {
				fail("reencode/PUBLISH", fmt.Sprintf("decoder admitted %s but Encode refuses it: %v", first.canon, err))
			}
		case *packet.Connect:
			if v.Will != nil {
				p := &packet.Publish{Message: *v.Will}
				if p.Message.QOS > 0 {
					p.ID = 1
				}
				if _, err := p.Encode(make([]byte, p.Len())); err != nil {
					fail("reencode/WILL", fmt.Sprintf("decoder admitted a will (%s) that cannot be encoded as a publish: %v", first.canon, err))
				}
			}
		}
	}
	streamCheck(r, in, &first, true, kind, fail)
}

// streamCheck runs the input through packet.Decoder. complete tells whether
// the input holds a complete first packet; exp is the framed outcome.
func streamCheck(r *h.Run, in []byte, exp *outcome, complete bool, kind string, fail func(string, string)) {
	defer func() {
		if e := recover(); e != nil {
			fail("panic/stream/"+kind, fmt.Sprintf("Decoder.Read panicked: %v", e))
		}
	}()
	// the input followed by a large valid packet through the same decoder (pool reuse)
	src := append(append([]byte(nil), in...), bigPkt...)
	dec := packet.NewDecoder(bytes.NewReader(src))
	dec.SetReadLimit(1 << 20)
	p, err := dec.Read()
	if !complete {
		// only the bare input: must be an error, never a packet, never a clean EOF with data
		dec2 := packet.NewDecoder(bytes.NewReader(in))
		// without a limit the decoder allocates the declared length (up to 256 MiB
		// per input and worker) before it notices the stream is shorter
		dec2.SetReadLimit(4 << 20)
		p2, err2 := dec2.Read()
		if err2 == nil {
			fail("stream-accepts-incomplete/"+kind, fmt.Sprintf("Decoder.Read returned %s from an input without a complete valid packet", ref.Canon(p2)))
		} else if err2 == io.EOF && len(in) > 0 {
			fail("stream-clean-eof/"+kind, "Decoder.Read reported a clean EOF although bytes had been received")
		}
		return
	}
	if exp.ok != (err == nil) {
		fail("stream/"+kind, fmt.Sprintf("Decoder.Read: err=%v, but Decode(framed) ok=%t (%s)", err, exp.ok, exp.err))
		return
	}
	if err != nil {
		return
	}
	c1 := ref.Canon(p)
	if c1 != exp.canon {
		fail("stream/"+kind, fmt.Sprintf("Decoder.Read returned %s, Decode(framed) %s", c1, exp.canon))
	}
	// read the large packet through the same pool, then re-check the first one
	if _, err := dec.Read(); err == nil {
		if c2 := ref.Canon(p); c2 != c1 {
			fail("ownership/stream/"+kind, fmt.Sprintf("packet returned by Decoder.Read changed after the next Read: %s -> %s", c1, c2))
		}
	}
}

func clip(b []byte) []byte {
	if len(b) > 600 {
		return b[:600]
	}
	return b
}

func fieldClass(p packet.Generic) string {
	switch v := p.(type) {
	case *packet.Publish:
		return fmt.Sprintf("q%d d%t r%t p%t", v.Message.QOS, v.Dup, v.Message.Retain, len(v.Message.Payload) > 0)
	case *packet.Connect:
		return fmt.Sprintf("v%d w%t u%t p%t c%t", v.Version, v.Will != nil, v.Username != "", v.Password != "", v.CleanSession)
	case *packet.Subscribe:
		return fmt.Sprintf("n%d", min(len(v.Subscriptions), 4))
	case *packet.Unsubscribe:
		return fmt.Sprintf("n%d", min(len(v.Topics), 4))
	case *packet.Suback:
		return fmt.Sprintf("n%d", min(len(v.ReturnCodes), 4))
	case *packet.Connack:
		return fmt.Sprintf("sp%t c%d", v.SessionPresent, v.ReturnCode)
	}
	return ""
}

func errClass(e string) string {
	if len(e) > 24 {
		e = e[:24]
	}
	return e
}

func min(a, b int) int {
	if a < b {
		return a
	}
	return b
}

func varint(n int) []byte {
	var b []byte
	for {
		d := byte(n % 128)
		n /= 128
		if n > 0 {
			d |= 0x80
		}
		b = append(b, d)
		if n == 0 {
			return b
		}
	}
}

func TestCheck(t *testing.T) {
	r := h.New("C02", "exploration")
	r.Rule("inputs: (i) exhaustive fixed headers — all 256 first bytes x all 1-byte (quick) and 2-byte (thorough) remaining-length encodings x body patterns {zeros, valid body of that type, truncated, extended, random}, 3-5 byte length encodings at boundary values and the overflow forms; (ii) structure-aware mutations of valid encodings: every single-bit flip of the first 64 bytes, every byte set to {00,01,7f,80,ff}, truncation at every offset, extension by 1..8 bytes, splices of two packets; (iii) PRNG byte strings. Each input is decoded as given, framed to its declared extent, framed+junk A, framed+junk B and through packet.Decoder, and compared with the reference decoder. Non-trivial = inputs with a valid type nibble that reach a type-specific Decode; distinct by (type, accepted/rejected, flag class or error class)")
	r.Assume("reference decoder internal/ref/codec.go with the stated leniencies: MQIsdp/3 accepted, non-minimal length encodings accepted, no UTF-8/topic-syntax validation, DUP with QoS 0 and session-present with non-zero code accepted, username flag with empty username")
	r.Assume("DetectPacket's (length,type) answer is compared with the reference only for length fields of <= 4 bytes")

	bp := &packet.Publish{Message: packet.Message{Topic: "big", Payload: bytes.Repeat([]byte{0x5A}, 9000)}}
	bigPkt, _ = ref.Encode(bp)

	rng := r.Rand("c02")
	var inputs [][]byte
	var origins []string
	add := func(b []byte, o string) {
		inputs = append(inputs, b)
		origins = append(origins, o)
	}
	flush := func() {
		ins, ors := inputs, origins
		h.Parallel(len(ins), 16, func(i int) {
			checkInput(r, ins[i], ors[i])
		})
		inputs, origins = nil, nil
	}

	// (i) exhaustive headers
	bodyFor := func(first byte, rl int, pattern int) []byte {
		switch pattern {
		case 0:
			return make([]byte, rl)
		case 1:
			if p := gen.Sized(rng, packet.Type(first>>4), rl, int(first&0x0f)+rl); p != nil {
				if b, err := ref.Encode(p); err == nil {
					hd, _ := ref.ParseHeader(b)
					return b[hd.HL:]
				}
			}
			return gen.Bytes(rng, rl)
		case 2:
			if rl == 0 {
				return nil
			}
			return gen.Bytes(rng, rl-1)
		case 3:
			return gen.Bytes(rng, rl+3)
		}
		return gen.Bytes(rng, rl)
	}
	for first := 0; first < 256; first++ {
		for rl := 0; rl < 128; rl++ {
			for pat := 0; pat < 5; pat++ {
				b := append([]byte{byte(first), byte(rl)}, bodyFor(byte(first), rl, pat)...)
				add(b, fmt.Sprintf("header %02x len1 %d pattern %d", first, rl, pat))
			}
		}
	}
	flush()
	r.Count("headers_1byte_len", 256*128)
	lens2 := r.Pick(600, 16384)
	for first := 0; first < 256; first++ {
		for k := 0; k < lens2; k++ {
			b1, b2 := byte(0x80|(k%128)), byte(k/128)
			if r.Quick() {
				x := rng.Intn(16384)
				b1, b2 = byte(0x80|(x%128)), byte(x/128)
				if k < 8 { // non-minimal and boundary forms always
					b1, b2 = []byte{0x80, 0x80, 0x81, 0xff, 0xff, 0x82, 0x80, 0xfe}[k], []byte{0x00, 0x01, 0x00, 0x00, 0x7f, 0x00, 0x7f, 0x7f}[k]
				}
			}
			rl := int(b1&0x7f) + 128*int(b2)
			pat := (k + first) % 5
			b := append([]byte{byte(first), b1, b2}, bodyFor(byte(first), rl, pat)...)
			add(b, fmt.Sprintf("header %02x len2 %02x%02x pattern %d", first, b1, b2, pat))
		}
		if len(inputs) > 200000 {
			flush()
		}
	}
	flush()
	r.Count("headers_2byte_len", int64(256*lens2))
	// 3-5 byte length forms (bodies kept short: declared extent mostly exceeds the input)
	for first := 0; first < 256; first++ {
		for _, l := range [][]byte{{0x80, 0x80, 0x00}, {0x80, 0x80, 0x01}, {0xff, 0xff, 0x7f}, {0x83, 0x80, 0x00}, {0x80, 0x80, 0x80, 0x00}, {0x80, 0x80, 0x80, 0x01}, {0xff, 0xff, 0xff, 0x7f},
			{0x80, 0x80, 0x80, 0x80, 0x00}, {0xff, 0xff, 0xff, 0xff, 0x7f}, {0xff, 0xff, 0xff, 0xff}, {0xff, 0xff, 0xff, 0xff, 0xff, 0xff, 0xff, 0xff, 0xff, 0xff, 0xff, 0x01}, {0x80}, {0xff, 0xff}} {
			for pat := 0; pat < 3; pat++ {
				body := [][]byte{nil, {0, 0}, gen.Bytes(rng, 40)}[pat]
				add(append(append([]byte{byte(first)}, l...), body...), fmt.Sprintf("header %02x long length form %x", first, l))
			}
			// non-minimal encodings of small lengths with a matching body
			if len(l) >= 3 && l[len(l)-1] == 0x00 && len(l) <= 4 {
				rl := int(l[0] & 0x7f)
				add(append(append([]byte{byte(first)}, l...), bodyFor(byte(first), rl, 1)...), fmt.Sprintf("header %02x non-minimal length %x with body", first, l))
			}
		}
	}
	flush()

	// (ii) structure-aware mutation of valid encodings
	nvalid := r.Pick(260, 6000)
	var corpus [][]byte
	for i := 0; i < nvalid; i++ {
		var p packet.Generic
		if i%3 == 0 {
			ty := packet.Types()[i%14]
			p = gen.Sized(rng, ty, []int{2, 5, 9, 20, 60, 127, 128, 130, 300}[i%9], i)
		}
		if p == nil {
			p = gen.Small(rng)
		}
		b, err := ref.Encode(p)
		if err != nil {
			continue
		}
		corpus = append(corpus, b)
	}
	for ci, b := range corpus {
		o := fmt.Sprintf("valid #%d (%x…)", ci, b[:min(len(b), 12)])
		add(b, o+" unmodified")
		lim := min(len(b), 64)
		for i := 0; i < lim; i++ {
			for bit := 0; bit < 8; bit++ {
				m := append([]byte(nil), b...)
				m[i] ^= 1 << uint(bit)
				add(m, fmt.Sprintf("%s bit flip %d.%d", o, i, bit))
			}
			vals := []byte{0x00, 0x01, 0x7f, 0x80, 0xff, b[i] + 1, b[i] - 1, b[i] + 2, b[i] - 2}
			if i < 24 {
				vals = append(vals, 2, 3, 4, 5, 6, 7, 8)
			}
			for _, v := range vals {
				if b[i] != v {
					m := append([]byte(nil), b...)
					m[i] = v
					add(m, fmt.Sprintf("%s byte %d := %02x", o, i, v))
				}
			}
		}
		for cut := 0; cut < len(b) && cut < 200; cut++ {
			add(append([]byte(nil), b[:cut]...), fmt.Sprintf("%s truncated to %d", o, cut))
		}
		for ext := 1; ext <= 8; ext++ {
			add(append(append([]byte(nil), b...), gen.Bytes(rng, ext)...), fmt.Sprintf("%s extended by %d", o, ext))
			// extension inside the declared extent: bump the length byte too (1-byte lengths)
			if len(b) >= 2 && b[1]&0x80 == 0 && int(b[1])+ext < 128 {
				m := append(append([]byte(nil), b...), gen.Bytes(rng, ext)...)
				m[1] += byte(ext)
				add(m, fmt.Sprintf("%s grown by %d inside the declared length", o, ext))
			}
			if len(b) >= 2 && b[1]&0x80 == 0 && int(b[1]) >= ext {
				m := append([]byte(nil), b...)
				m[1] -= byte(ext)
				add(m, fmt.Sprintf("%s declared length reduced by %d (tail becomes trailing bytes)", o, ext))
			}
		}
		other := corpus[rng.Intn(len(corpus))]
		for k := 0; k < 6; k++ {
			i, j := rng.Intn(len(b)+1), rng.Intn(len(other)+1)
			add(append(append([]byte(nil), b[:i]...), other[j:]...), fmt.Sprintf("%s spliced at %d with #? at %d", o, i, j))
		}
		if len(inputs) > 200000 {
			flush()
		}
	}
	flush()
	r.Count("valid_corpus", int64(len(corpus)))

	// (ii-b) CONNECT field matrix: protocol names x levels x all 256 connect-flag bytes x field variants
	lp := func(x string) []byte { return append([]byte{byte(len(x) >> 8), byte(len(x))}, x...) }
	for _, name := range []string{"MQTT", "MQIsdp", "MQTT ", "mqtt", "", "MQIsd", "MQTTT"} {
		for _, lvl := range []byte{0, 1, 2, 3, 4, 5, 6, 0x83, 0x84} {
			for fl := 0; fl < 256; fl++ {
				for variant := 0; variant < 4; variant++ {
					body := append(lp(name), lvl, byte(fl), 0, 30)
					cid, wt, user := "c", "w", "u"
					if variant&1 != 0 {
						cid = ""
					}
					if variant&2 != 0 {
						wt, user = "", ""
					}
					body = append(body, lp(cid)...)
					if fl&0x04 != 0 {
						body = append(append(body, lp(wt)...), lp("p")...)
					}
					if fl&0x80 != 0 {
						body = append(body, lp(user)...)
					}
					if fl&0x40 != 0 {
						body = append(body, lp("s")...)
					}
					add(append(append([]byte{0x10}, varint(len(body))...), body...), fmt.Sprintf("connect matrix name=%q level=%d flags=%02x variant=%d", name, lvl, fl, variant))
				}
			}
		}
	}
	flush()

	// (iii) random strings
	nrand := r.Pick(150000, 12000000)
	for i := 0; i < nrand; i++ {
		n := rng.Intn(48)
		if i%50 == 0 {
			n = rng.Intn(600)
		}
		b := gen.Bytes(rng, n)
		if n >= 2 && i%2 == 0 {
			// bias: valid type nibble, plausible flags, consistent 1-byte length
			ty := byte(1 + rng.Intn(14))
			b[0] = ty<<4 | []byte{0, 2, 0, 0, byte(rng.Intn(16))}[rng.Intn(5)]
			if rng.Intn(3) != 0 {
				b[1] = byte(n - 2)
			}
		}
		add(b, fmt.Sprintf("random #%d", i))
		if len(inputs) > 200000 {
			flush()
		}
	}
	flush()
	r.Count("reached_type_decode", atomic.LoadInt64(&nReached))
	r.Count("accepted", atomic.LoadInt64(&nAccepted))
	r.Count("rejected_after_header", atomic.LoadInt64(&nRejected))
	r.Sample(map[string]string{"input_hex": "3003000561", "what": "PUBLISH whose topic length field (5) exceeds the declared remaining length (3)"})
	r.Sample(map[string]string{"input_hex": "30020000", "what": "PUBLISH with zero-length topic"})
	r.Sample(map[string]string{"input_hex": fmt.Sprintf("%x", corpus[0]), "what": "first valid corpus entry before mutation"})
	h.Exit(r.Finish(60))
}
