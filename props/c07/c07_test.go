// C07 — broker acknowledges a publisher only after acceptance; inbound QoS 2
// is forwarded exactly once; every PUBREL is answered.
// Monitors (offline over the event log): ack-invoked -> PUBACK/PUBCOMP order,
// PUBREC pre-send assertion on the session, QoS 2 receiver model driven by
// what the broker reports as received, SUBACK fence through the ack queue.
package c07

import (
	"fmt"
	"strings"
	"sync"
	"testing"
	"time"

	"github.com/256dpi/gomqtt/packet"
	"github.com/256dpi/gomqtt/session"

	"verif/internal/bh"
	"verif/internal/h"
	"verif/internal/ref"
	"verif/internal/wire"
)

type item struct {
	Kind string // q1 q2 rel drop
	ID   packet.ID
	Dup  bool
	N    int // message number (payload identity); retransmissions share it
}

func (i item) String() string {
	switch i.Kind {
	case "drop":
		return "drop+resume"
	case "release":
		return "release-held-acks"
	case "rel":
		return fmt.Sprintf("PUBREL(%d)", i.ID)
	}
	d := ""
	if i.Dup {
		d = ",dup"
	}
	return fmt.Sprintf("PUBLISH-%s(%d%s,m%d)", i.Kind, i.ID, d, i.N)
}

type connFault struct {
	Conn int
	F    bh.Fault
}

type scenario struct {
	Script []item
	Fault  *connFault
	Ack    bh.AckMode
	Hold   bool // late acknowledgements are held back until a "release" item
	PubErr int  // the PubErr-th Backend.Publish call fails (0 = none)
	Limit  int  // ClientParallelPublishes (0 = the default of 10); token timeout 4 s then
}

func (s scenario) String() string {
	f := "no fault"
	if s.Fault != nil {
		f = fmt.Sprintf("conn%d:%v", s.Fault.Conn, s.Fault.F)
	}
	if s.PubErr > 0 {
		f += fmt.Sprintf(" | Backend.Publish call #%d refused", s.PubErr)
	}
	if s.Limit > 0 {
		f += fmt.Sprintf(" | %d publish token(s)", s.Limit)
	}
	return fmt.Sprintf("%v | %s | ack=%s", s.Script, f, []string{"sync", "late", "never", "inside-the-next-publish"}[s.Ack])
}

func payload(it item) string { return fmt.Sprintf("%s-id%d-m%d", it.Kind, it.ID, it.N) }

type result struct {
	sends, recvs []int // per connection index: broker-side Send/Receive call counts
	inconclusive string
}

// run executes one scenario and checks all oracles.
func run(r *h.Run, sc scenario, judge bool) result {
	var res result
	b := bh.NewBroker()
	b.Mon.AckMode = sc.Ack
	if sc.Limit > 0 {
		b.Mon.Inner.ClientParallelPublishes = sc.Limit
		b.Mon.Inner.ClientTokenTimeout = 4 * time.Second
	}
	if sc.PubErr > 0 {
		b.Mon.AddFault(bh.HookFault{Hook: "Publish", K: sc.PubErr, Before: true})
	}
	held := false
	if sc.Hold {
		b.Mon.LateGate = make(chan struct{})
		held = true
	}
	flushing := false
	waitLate := func() {
		if !held {
			b.Mon.WaitLate()
		}
		if flushing {
			b.Mon.FlushHeld()
		}
	}
	defer func() {
		if held {
			close(b.Mon.LateGate)
		}
		b.Shutdown()
	}()
	var mu sync.Mutex
	var conns []*bh.FConn
	var peers []*bh.Peer
	fail := func(key, msg string) {
		if !judge {
			return
		}
		r.Violation(key, fmt.Sprintf("%v: %s", sc, msg), map[string]interface{}{"scenario": sc.String(), "detail": msg, "event_log": b.Log.Dump(120)})
	}
	// PUBREC pre-send assertion (O3): the PUBLISH must be in the publisher's session now
	preSend := func(fc *bh.FConn) func(packet.Generic) {
		return func(g packet.Generic) {
			rec, ok := g.(*packet.Pubrec)
			if !ok {
				return
			}
			ci := b.ClientOf(fc.Name)
			if ci == nil {
				return
			}
			snap := b.Mon.Snapshot(ci)
			if snap.Session == nil {
				fail("pubrec-before-store", fmt.Sprintf("PUBREC %d is being sent but the client has no session", rec.ID))
				return
			}
			stored, _ := snap.Session.LookupPacket(session.Incoming, rec.ID)
			if pub, ok := stored.(*packet.Publish); !ok || pub.ID != rec.ID {
				fail("pubrec-before-store", fmt.Sprintf("PUBREC %d is being sent but the session holds %v under that id", rec.ID, ref.Canon(stored)))
			}
		}
	}
	connect := func() *bh.Peer {
		idx := len(conns)
		name := fmt.Sprintf("pub#%d", idx)
		p, fc, ca, err := b.Connect(name, bh.ConnectOpts{ID: "publisher", Clean: false}, func(fc *bh.FConn, be, pe *wire.End) {
			fc.PreSend = preSend(fc)
			if sc.Fault != nil && sc.Fault.Conn == idx {
				fc.AddFault(sc.Fault.F)
			}
		})
		mu.Lock()
		conns = append(conns, fc)
		peers = append(peers, p)
		mu.Unlock()
		if err != nil {
			res.inconclusive = "CONNACK watchdog"
			return nil
		}
		_ = ca // nil when the fault hit the CONNECT/CONNACK exchange
		return p
	}
	alive := func(p *bh.Peer) bool { return p != nil && !p.EOF() }
	p := connect()
	if res.inconclusive != "" {
		return res
	}
	resumes := 0
	ensure := func() bool {
		for tries := 0; !alive(p); tries++ {
			if tries > 3 {
				return false
			}
			if p != nil {
				p.Close()
				b.WaitClosed(p.Name, bh.Watchdog)
			}
			resumes++
			p = connect()
			if res.inconclusive != "" {
				return false
			}
			if p != nil {
				// CONNACK may be missing when the fault hit this very connection
				if len(p.All()) == 0 {
					p.WaitEOF(bh.Watchdog)
				}
			}
		}
		return true
	}
	id := packet.ID(500)
	for _, it := range sc.Script {
		if !ensure() {
			break
		}
		switch it.Kind {
		case "release":
			if held {
				close(b.Mon.LateGate)
				held = false
			}
			waitLate()
			continue
		case "drop":
			p.Close()
			b.WaitClosed(p.Name, bh.Watchdog)
			continue
		case "q1":
			_ = p.Send(&packet.Publish{ID: it.ID, Dup: it.Dup, Message: packet.Message{Topic: "c07/t", QOS: 1, Payload: []byte(payload(it))}})
		case "q2":
			_ = p.Send(&packet.Publish{ID: it.ID, Dup: it.Dup, Message: packet.Message{Topic: "c07/t", QOS: 2, Payload: []byte(payload(it))}})
		case "rel":
			_ = p.Send(&packet.Pubrel{ID: it.ID})
		}
		// fence: the processor has handled the item (or the connection is gone)
		if err := bh.Ping(p); err == bh.ErrTimeout {
			res.inconclusive = "PINGRESP watchdog after " + it.String()
			return res
		}
		waitLate()
	}
	if sc.Ack == bh.AckInNext {
		b.Mon.FlushHeld()
		flushing = true // from here on nothing is held back any more
	}
	// completion phase: like a real client, retransmit PUBREL for every id whose
	// PUBREC arrived on some connection and whose PUBCOMP did not
	for round := 0; round < 3; round++ {
		if !ensure() {
			break
		}
		pending := map[packet.ID]bool{}
		mu.Lock()
		ps := append([]*bh.Peer(nil), peers...)
		mu.Unlock()
		for _, q := range ps {
			for _, g := range q.All() {
				switch v := g.(type) {
				case *packet.Pubrec:
					pending[v.ID] = true
				case *packet.Pubcomp:
					delete(pending, v.ID)
				}
			}
		}
		if len(pending) == 0 || sc.Ack == bh.AckNever {
			break
		}
		for pid := range pending {
			_ = p.Send(&packet.Pubrel{ID: pid})
		}
		if err := bh.Ping(p); err == bh.ErrTimeout {
			res.inconclusive = "PINGRESP watchdog in completion phase"
			return res
		}
		waitLate()
		id++
		if alive(p) {
			_ = p.Send(&packet.Subscribe{ID: id, Subscriptions: []packet.Subscription{{Topic: "c07/fence", QOS: 0}}})
			if _, err := bh.AwaitAck(p, packet.SUBACK, id); err == bh.ErrTimeout {
				res.inconclusive = "fence SUBACK watchdog (completion phase)"
				return res
			}
		}
	}
	// final fence through the ack queue on the surviving connection
	fenced := false
	if ensure() {
		waitLate()
		id++
		_ = p.Send(&packet.Subscribe{ID: id, Subscriptions: []packet.Subscription{{Topic: "c07/fence", QOS: 0}}})
		_, err := bh.AwaitAck(p, packet.SUBACK, id)
		if err == bh.ErrTimeout {
			res.inconclusive = "final fence SUBACK watchdog"
			return res
		}
		fenced = err == nil
	}
	for _, fc := range conns {
		s, rc := fc.Counts()
		res.sends = append(res.sends, s)
		res.recvs = append(res.recvs, rc)
	}
	if !judge {
		return res
	}

	// ------------------------------------------------------------ oracles
	ev := b.Log.Events()
	// O0: the scripted publisher is protocol-conformant and never needs more
	// publish tokens than there are packet ids in play: the broker has no reason
	// to end one of its connections by itself (token timeout, "unexpected packet")
	for _, e := range ev {
		if e.Kind == "log:client error" && strings.HasPrefix(e.Who, "pub#") {
			fail("publisher-killed-by-broker", fmt.Sprintf("the broker closed connection %s of a well-behaved publisher: %s", e.Who, e.Note))
			break
		}
	}
	// O1/O2: acknowledgements only after the backend's ack was invoked.
	// Per packet id a three-state receiver model driven by what the broker
	// reports as received: none -> stored (PUBLISH) -> pending (PUBREL, handed
	// over, not yet acknowledged) -> none (backend ack). A PUBCOMP is justified
	// by a backend ack for that id or by a PUBREL received in state none.
	type idState struct {
		st string // "", "stored", "pending"
		pl string
	}
	states := map[packet.ID]*idState{}
	get := func(id packet.ID) *idState {
		if states[id] == nil {
			states[id] = &idState{}
		}
		return states[id]
	}
	credit := map[packet.ID]int{}
	q1acks := map[packet.ID]int{}
	sentAck := map[string]int{}
	expectedFwd := map[string]int{}
	relRecv := map[string]int{}  // conn|id
	compSent := map[string]int{} // conn|id
	for _, e := range ev {
		switch {
		case e.Kind == "ack-invoked":
			if i := strings.Index(e.Note, "payload="); i >= 0 {
				var raw []byte
				fmt.Sscanf(e.Note[i+8:], "%x", &raw)
				parts := strings.Split(string(raw), "-")
				if len(parts) >= 2 {
					var idn int
					fmt.Sscanf(strings.TrimPrefix(parts[1], "id"), "%d", &idn)
					if parts[0] == "q1" {
						q1acks[packet.ID(idn)]++
					} else {
						credit[packet.ID(idn)]++
						if st := get(packet.ID(idn)); st.st == "pending" && st.pl == string(raw) {
							st.st = ""
						}
					}
				}
			}
		case e.Kind == "log:packet received":
			switch v := e.Pkt.(type) {
			case *packet.Publish:
				if v.Message.QOS == 2 {
					st := get(v.ID)
					st.st, st.pl = "stored", string(v.Message.Payload)
				}
			case *packet.Pubrel:
				relRecv[fmt.Sprintf("%s|%d", e.Who, v.ID)]++
				st := get(v.ID)
				switch st.st {
				case "stored":
					expectedFwd[st.pl]++
					st.st = "pending"
				case "pending":
					// repeated PUBREL while the hand-over is unacknowledged: no PUBCOMP is due yet
				default:
					credit[v.ID]++
				}
			}
		case e.Kind == "bsend":
			switch v := e.Pkt.(type) {
			case *packet.Puback:
				k := fmt.Sprintf("q1|%d", v.ID)
				sentAck[k]++
				if sentAck[k] > q1acks[v.ID] {
					fail("puback-before-ack", fmt.Sprintf("PUBACK %d written (event %d) although the backend's ack had been invoked %d times for that id (PUBACKs so far %d)", v.ID, e.Seq, q1acks[v.ID], sentAck[k]))
				}
			case *packet.Pubcomp:
				sentAck[fmt.Sprintf("q2|%d", v.ID)]++
				compSent[fmt.Sprintf("%s|%d", e.Who, v.ID)]++
				if credit[v.ID] <= 0 {
					fail("pubcomp-before-ack", fmt.Sprintf("PUBCOMP %d written (event %d) without justification: no unconsumed backend acknowledgement for that id and no PUBREL received while the id was unknown (state %q)", v.ID, e.Seq, get(v.ID).st))
				} else {
					credit[v.ID]--
				}
			}
		}
	}
	// O4: QoS 2 forwarded exactly once per handshake (sync and late acknowledgement);
	// QoS 1 at least once per PUBLISH the broker received
	observed := map[string]int{}
	recvQ1 := map[string]int{}
	for _, ci := range b.Mon.Clients() {
		snap := b.Mon.Snapshot(ci)
		for i, m := range snap.Publishes {
			if snap.PubErrs[i] == nil { // hand-overs the backend did not refuse
				observed[string(m.Payload)]++
			}
		}
		for _, g := range snap.Received {
			if pub, ok := g.(*packet.Publish); ok && pub.Message.QOS == 1 {
				recvQ1[string(pub.Message.Payload)]++
			}
		}
	}
	if sc.PubErr > 0 {
		// a refused hand-over kills the connection; the retransmitted PUBREL must
		// hand the message over again: accepted hand-overs are exactly one for every
		// message whose handshake was completed by a PUBCOMP
		for pl, n := range observed {
			if strings.HasPrefix(pl, "q2-") && n > expectedFwd[pl] {
				fail("qos2-forwarded-twice", fmt.Sprintf("QoS 2 message %s was accepted by the backend %d times for %d handshake(s)", pl, n, expectedFwd[pl]))
			}
		}
	} else if sc.Ack != bh.AckNever {
		for pl, n := range expectedFwd {
			if observed[pl] != n {
				key := "qos2-forwarded-twice"
				if observed[pl] < n {
					key = "qos2-not-forwarded"
				} else if pendingHandover(ev, pl) {
					// every extra hand-over began while the first one was not yet
					// acknowledged (the backend's ack callback had not returned)
					key = "qos2-forwarded-twice/handover-still-unacknowledged-at-retransmitted-pubrel"
				}
				fail(key, fmt.Sprintf("QoS 2 message %s: the broker processed %d PUBREL(s) for a stored PUBLISH but handed the message to the backend %d time(s)", pl, n, observed[pl]))
			}
		}
		for pl, n := range observed {
			if strings.HasPrefix(pl, "q2-") && expectedFwd[pl] == 0 && n > 0 {
				fail("qos2-forwarded-without-pubrel", fmt.Sprintf("QoS 2 message %s was handed to the backend %d time(s) without a PUBREL for a stored PUBLISH", pl, n))
			}
		}
	}
	for pl, n := range recvQ1 {
		if sc.PubErr == 0 && observed[pl] < n {
			fail("qos1-not-forwarded", fmt.Sprintf("QoS 1 message %s: %d PUBLISH packet(s) processed by the broker, %d hand-overs to the backend", pl, n, observed[pl]))
		}
	}
	// O5: behind the fence every PUBREL received on the surviving connection has its PUBCOMP
	if fenced {
		for k, n := range relRecv {
			if !strings.HasPrefix(k, p.Name+"|") {
				continue
			}
			idStr := k[strings.Index(k, "|")+1:]
			if sc.Ack == bh.AckNever {
				// only PUBRELs for unknown ids are answered in this mode
				continue
			}
			if compSent[k] < n {
				fail("pubrel-unanswered", fmt.Sprintf("connection %s stayed up, received %d PUBREL(s) for id %s and sent %d PUBCOMP(s)", p.Name, n, idStr, compSent[k]))
			}
		}
	}
	if sc.Ack == bh.AckNever {
		for k, n := range sentAck {
			if strings.HasPrefix(k, "q1|") && n > 0 {
				fail("puback-before-ack", fmt.Sprintf("%d PUBACK(s) for %s although the backend never acknowledged", n, k))
			}
		}
	}
	for _, q := range peers {
		if err := q.ProtocolError(); err != nil {
			fail("malformed-from-broker", err.Error())
		}
	}
	r.Distinct("event_traces", b.Log.Trace())
	return res
}

// pendingHandover: all hand-overs of this payload after the first started
// before the first acknowledgement of the backend was invoked.
func pendingHandover(ev []bh.Event, pl string) bool {
	hexpl := fmt.Sprintf("payload=%x", pl)
	var pubs []int64
	firstAck := int64(-1)
	for _, e := range ev {
		if e.Kind == "backend-publish" && strings.HasSuffix(e.Note, hexpl) {
			pubs = append(pubs, e.Seq)
		}
		if e.Kind == "ack-returned" && strings.HasSuffix(e.Note, hexpl) && firstAck < 0 {
			firstAck = e.Seq
		}
	}
	if len(pubs) < 2 || firstAck < 0 {
		return false
	}
	for _, s := range pubs[1:] {
		if s > firstAck {
			return false
		}
	}
	return true
}

func scripts(depth int) [][]item {
	return scriptsOver([]item{{Kind: "q1", ID: 1}, {Kind: "q2", ID: 1}, {Kind: "q2", ID: 1, Dup: true}, {Kind: "rel", ID: 1}, {Kind: "q2", ID: 2}, {Kind: "rel", ID: 2}, {Kind: "drop"}}, depth)
}

func scriptsOver(alpha []item, depth int) [][]item {
	var out [][]item
	var rec func(cur []item)
	rec = func(cur []item) {
		if len(cur) > 0 {
			out = append(out, append([]item(nil), cur...))
		}
		if len(cur) == depth {
			return
		}
		for _, a := range alpha {
			rec(append(cur, a))
		}
	}
	rec(nil)
	// number the messages: a dup retransmission shares the number of the previous q2 with that id
	for _, sc := range out {
		n := 0
		last := map[packet.ID]int{}
		for i := range sc {
			switch sc[i].Kind {
			case "q1":
				n++
				sc[i].N = n
			case "q2":
				if sc[i].Dup && last[sc[i].ID] != 0 {
					sc[i].N = last[sc[i].ID]
				} else {
					n++
					sc[i].N = n
					last[sc[i].ID] = n
				}
			}
		}
	}
	return out
}

func interesting(sc []item) bool {
	for _, i := range sc {
		if i.Kind == "q1" || i.Kind == "q2" {
			return true
		}
	}
	return false
}

func TestCheck(t *testing.T) {
	r := h.New("C07", "fault_enumeration")
	depth := r.Pick(3, 4)
	r.Rule(fmt.Sprintf("all publisher scripts of length <= %d over {PUBLISH q1(1), PUBLISH q2(1), PUBLISH q2(1,dup), PUBREL(1), PUBLISH q2(2), PUBREL(2), drop+resume} containing a QoS>0 publish, each first run without faults to count the packets the broker sends/receives per connection, then re-run with every single fault position (connection c, k-th Send or Receive, before/after; longer scripts take every 2nd or 3rd position with an offset that moves with the script index) x backend acknowledgement mode {sync, late from another goroutine, never}; scripts over two QoS 1 ids and two QoS 2 ids run with every acknowledgement held back until the broker is inside Backend.Publish for the next message; every script without a repeated QoS 2 PUBLISH per connection also runs with as few publish tokens as it has QoS 2 ids (token timeout 4 s); after the script a completion phase retransmits PUBREL for every id with PUBREC but no PUBCOMP (as a client would) and a SUBSCRIBE fence through the ack queue closes the run. Non-trivial = runs in which a QoS>0 publish reached the backend; distinct by (script, fault, ack mode)", depth))
	r.Assume("what the broker 'received' is taken from its own Log(PacketReceived) report")
	r.Assume("exactly-once is judged for acknowledged hand-overs (sync/late modes); with a backend that never acknowledges only the absence of PUBACK/PUBCOMP is judged")
	all := scripts(depth)
	var list [][]item
	for _, s := range all {
		if interesting(s) {
			list = append(list, s)
		}
	}
	if !r.Quick() {
		// thorough: add sampled scripts of length 5
		rng := r.Rand("c07-len5")
		five := scripts(5)
		for i := 0; i < 1200; i++ {
			s := five[rng.Intn(len(five))]
			if len(s) == 5 && interesting(s) {
				list = append(list, s)
			}
		}
	}
	r.Count("scripts", int64(len(list)))
	var nrun, nfault int64
	var cmu sync.Mutex
	h.Parallel(len(list), 16, func(i int) {
		sc := list[i]
		for _, ack := range []bh.AckMode{bh.AckSync, bh.AckLate, bh.AckNever} {
			base := scenario{Script: sc, Ack: ack}
			r.Journal("C07 %v", base)
			res := run(r, base, true)
			r.Eval()
			if res.inconclusive != "" {
				r.Inconclusive(fmt.Sprintf("%v: %s", base, res.inconclusive))
				continue
			}
			r.NonTrivial(base.String())
			var faults []connFault
			for c := range res.sends {
				for k := 1; k <= res.sends[c]; k++ {
					faults = append(faults, connFault{c, bh.Fault{Dir: "send", K: k, When: "before"}}, connFault{c, bh.Fault{Dir: "send", K: k, When: "after"}})
				}
				for k := 1; k <= res.recvs[c]; k++ {
					faults = append(faults, connFault{c, bh.Fault{Dir: "recv", K: k, When: "before"}}, connFault{c, bh.Fault{Dir: "recv", K: k, When: "after"}})
				}
			}
			// quick tier: the full fault list for short scripts, every 3rd position for length-3 scripts
			// and in the thorough tier: all positions up to length 3, every 2nd for
			// length 4, every 3rd for the sampled length-5 scripts (the offset moves
			// with the script index, so neighbouring scripts cover the other positions)
			stride := 1
			switch {
			case r.Quick() && len(sc) >= 3:
				stride = 3
			case !r.Quick() && len(sc) == 4:
				stride = 2
			case !r.Quick() && len(sc) >= 5:
				stride = 3
			}
			for fi, f := range faults {
				if (fi+i)%stride != 0 {
					continue
				}
				f := f
				s2 := scenario{Script: sc, Ack: ack, Fault: &f}
				r.Journal("C07 %v", s2)
				res2 := run(r, s2, true)
				r.Eval()
				if res2.inconclusive != "" {
					r.Inconclusive(fmt.Sprintf("%v: %s", s2, res2.inconclusive))
					continue
				}
				r.NonTrivial(s2.String())
				cmu.Lock()
				nfault++
				cmu.Unlock()
			}
			// backend refusing the k-th hand-over (sync mode only)
			if ack == bh.AckSync {
				calls := 0
				for _, it := range sc {
					if it.Kind != "drop" {
						calls++
					}
				}
				for k := 1; k <= calls; k++ {
					s4 := scenario{Script: sc, Ack: ack, PubErr: k}
					r.Journal("C07 %v", s4)
					res4 := run(r, s4, true)
					r.Eval()
					if res4.inconclusive != "" {
						r.Inconclusive(fmt.Sprintf("%v: %s", s4, res4.inconclusive))
						continue
					}
					r.NonTrivial(s4.String())
				}
			}
			cmu.Lock()
			nrun++
			if nrun <= 3 {
				r.Sample(map[string]interface{}{"scenario": base.String(), "fault_positions_enumerated": len(faults)})
			}
			cmu.Unlock()
		}
	})
	// acknowledgements that arrive while the broker is inside Backend.Publish for
	// the next message (two QoS 1 ids, two QoS 2 ids): each PUBACK / PUBCOMP must
	// still belong to the message the backend acknowledged
	inNext := scriptsOver([]item{{Kind: "q1", ID: 1}, {Kind: "q1", ID: 2}, {Kind: "q2", ID: 1}, {Kind: "rel", ID: 1}, {Kind: "q2", ID: 2}, {Kind: "rel", ID: 2}}, 3)
	if !r.Quick() {
		inNext = scriptsOver([]item{{Kind: "q1", ID: 1}, {Kind: "q1", ID: 2}, {Kind: "q2", ID: 1}, {Kind: "rel", ID: 1}, {Kind: "q2", ID: 2}, {Kind: "rel", ID: 2}, {Kind: "drop"}}, 4)
	}
	var nin int64
	h.Parallel(len(inNext), 16, func(i int) {
		if !interesting(inNext[i]) {
			return
		}
		// a publisher may not reuse a QoS 2 packet id before it has the PUBCOMP,
		// and here the PUBCOMP waits for the next hand-over: one PUBLISH per id
		usedQ2 := map[packet.ID]bool{}
		for _, it := range inNext[i] {
			if it.Kind == "q2" {
				if usedQ2[it.ID] {
					return
				}
				usedQ2[it.ID] = true
			}
		}
		s6 := scenario{Script: inNext[i], Ack: bh.AckInNext}
		r.Journal("C07 %v", s6)
		res6 := run(r, s6, true)
		r.Eval()
		if res6.inconclusive != "" {
			r.Inconclusive(fmt.Sprintf("%v: %s", s6, res6.inconclusive))
			return
		}
		r.NonTrivial(s6.String())
		cmu.Lock()
		nin++
		cmu.Unlock()
	})
	r.Count("ack_inside_next_publish_runs", nin)
	// few publish tokens: as many as there are QoS 2 packet ids in the script, plus
	// one if it has QoS 1 publishes (a publisher needs no more: a token is bound
	// from PUBLISH to PUBCOMP / PUBACK). Scripts
	// that repeat a QoS 2 PUBLISH of one id on the same connection are left out
	// (each repetition binds another token there). Fault-free runs, sync acks.
	var nlim int64
	h.Parallel(len(list), 16, func(i int) {
		sc := list[i]
		ids := map[packet.ID]bool{}
		seg := map[packet.ID]bool{}
		ok := true
		for _, it := range sc {
			switch it.Kind {
			case "drop":
				seg = map[packet.ID]bool{}
			case "q2":
				if seg[it.ID] {
					ok = false
				}
				seg[it.ID] = true
				ids[it.ID] = true
			}
		}
		if !ok || len(ids) == 0 {
			return
		}
		limit := len(ids)
		for _, it := range sc {
			if it.Kind == "q1" {
				limit = len(ids) + 1 // a QoS 1 publish binds a token until its PUBACK is out
				break
			}
		}
		s5 := scenario{Script: sc, Ack: bh.AckSync, Limit: limit}
		r.Journal("C07 %v", s5)
		res5 := run(r, s5, true)
		r.Eval()
		if res5.inconclusive != "" {
			r.Inconclusive(fmt.Sprintf("%v: %s", s5, res5.inconclusive))
			return
		}
		r.NonTrivial(s5.String())
		cmu.Lock()
		nlim++
		cmu.Unlock()
	})
	r.Count("limited_token_runs", nlim)
	// dedicated: the late acknowledgement is still outstanding when the PUBREL is
	// retransmitted on the resumed session (deterministic by holding the ack)
	for _, sc := range [][]item{
		{{Kind: "q2", ID: 1, N: 1}, {Kind: "rel", ID: 1}, {Kind: "drop"}, {Kind: "rel", ID: 1}, {Kind: "release"}},
		{{Kind: "q2", ID: 1, N: 1}, {Kind: "rel", ID: 1}, {Kind: "rel", ID: 1}, {Kind: "release"}},
	} {
		s3 := scenario{Script: sc, Ack: bh.AckLate, Hold: true}
		r.Journal("C07 %v", s3)
		if res := run(r, s3, true); res.inconclusive != "" {
			r.Inconclusive(fmt.Sprintf("%v: %s", s3, res.inconclusive))
		}
		r.Eval()
		r.NonTrivial(s3.String() + " held")
	}
	r.Count("fault_runs", nfault)
	h.Exit(r.Finish(50))
}
