// C01 — codec round trip, Len() = bytes written, layout = specification.
// Monitor: differential against the independent reference encoder (ref/codec),
// buffer canaries, decode-back comparison, stream encoder/decoder comparison.
package c01

import (
	"bytes"
	"fmt"
	"io"
	"testing"

	"github.com/256dpi/gomqtt/packet"

	"verif/internal/gen"
	"verif/internal/h"
	"verif/internal/ref"
)

type tcase struct {
	p    packet.Generic
	desc string
	big  bool
}

func rlClass(rl int) string {
	switch {
	case rl < 128:
		return "1"
	case rl < 16384:
		return "2"
	case rl < 2097152:
		return "3"
	}
	return "4"
}

func lenClass(n int) string {
	switch {
	case n == 0:
		return "0"
	case n < 128:
		return "s"
	case n < 65534:
		return "m"
	}
	return "L"
}

// signature of a case: (type, flag tuple, varint class of rl, field classes)
func signature(p packet.Generic, rl int) string {
	s := ref.Kind(p) + "/rl" + rlClass(rl)
	switch v := p.(type) {
	case *packet.Publish:
		s += fmt.Sprintf("/q%d d%t r%t t%s p%s", v.Message.QOS, v.Dup, v.Message.Retain, lenClass(len(v.Message.Topic)), lenClass(len(v.Message.Payload)))
	case *packet.Connect:
		s += fmt.Sprintf("/v%d c%t u%s p%s id%s", v.Version, v.CleanSession, lenClass(len(v.Username)), lenClass(len(v.Password)), lenClass(len(v.ClientID)))
		if v.Will != nil {
			s += fmt.Sprintf(" w q%d r%t t%s p%s", v.Will.QOS, v.Will.Retain, lenClass(len(v.Will.Topic)), lenClass(len(v.Will.Payload)))
		}
	case *packet.Connack:
		s += fmt.Sprintf("/sp%t c%d", v.SessionPresent, v.ReturnCode)
	case *packet.Subscribe:
		qs := map[packet.QOS]bool{}
		for _, x := range v.Subscriptions {
			qs[x.QOS] = true
		}
		s += fmt.Sprintf("/n%s q%v", lenClass(len(v.Subscriptions)), len(qs))
	case *packet.Suback:
		cs := map[packet.QOS]bool{}
		for _, x := range v.ReturnCodes {
			cs[x] = true
		}
		s += fmt.Sprintf("/n%s c%d", lenClass(len(v.ReturnCodes)), len(cs))
	case *packet.Unsubscribe:
		s += fmt.Sprintf("/n%s", lenClass(len(v.Topics)))
	}
	return s
}

func TestCheck(t *testing.T) {
	r := h.New("C01", "exploration")
	r.Rule("well-formed packet values from the generator: all 14 types x flag matrix x remaining lengths on both sides of every varint boundary x boundary field lengths and ids, plus PRNG-random values; each value is encoded (exact, oversized canary buffer), compared byte-for-byte with the reference encoder, decoded back, and pushed through the stream Encoder/Decoder. A case is non-trivial/distinct by (type, flag tuple, varint-length class of the remaining length, field-length classes)")
	r.Assume("the reference codec internal/ref/codec.go is a faithful reading of MQTT 3.1.1 §2-3")
	r.Assume("normalisation: Connect.Version 0 == 4; nil == empty payload")

	var cases []tcase
	rng := r.Rand("c01-matrix")
	// (1) sized matrix: every type x every rl target x flag variants
	for _, t := range packet.Types() {
		for _, rl := range gen.RLTargets {
			big := rl > 100000
			nv := 32
			if big {
				nv = r.Pick(8, 32)
			}
			for v := 0; v < nv; v++ {
				vv := v
				if big {
					vv = v*11 + int(r.Seed()%7)
				}
				p := gen.Sized(rng, t, rl, vv)
				if p == nil {
					continue
				}
				cases = append(cases, tcase{p, fmt.Sprintf("sized %s rl=%d variant=%d", t, rl, vv), big})
			}
		}
	}
	// (2) field-length boundaries for every string field
	for _, n := range gen.FieldLens {
		for v := 0; v < 12; v++ {
			if n > 0 {
				p := &packet.Publish{Message: packet.Message{Topic: gen.Str(rng, n), QOS: packet.QOS(v % 3), Retain: v&4 != 0}}
				if p.Message.QOS > 0 {
					p.ID = gen.IDs[v%len(gen.IDs)]
					p.Dup = v&8 != 0
				}
				cases = append(cases, tcase{p, fmt.Sprintf("publish topic len %d v%d", n, v), false})
				s := &packet.Subscribe{ID: gen.IDs[v%len(gen.IDs)], Subscriptions: []packet.Subscription{{Topic: gen.Str(rng, n), QOS: packet.QOS(v % 3)}, {Topic: "x", QOS: packet.QOS((v + 1) % 3)}}}
				cases = append(cases, tcase{s, fmt.Sprintf("subscribe filter len %d v%d", n, v), false})
				u := &packet.Unsubscribe{ID: gen.IDs[v%len(gen.IDs)], Topics: []string{"y", gen.Str(rng, n)}}
				cases = append(cases, tcase{u, fmt.Sprintf("unsubscribe topic len %d v%d", n, v), false})
			}
			c := &packet.Connect{Version: 4, CleanSession: true, KeepAlive: uint16(v * 5461)}
			switch v % 4 {
			case 0:
				c.ClientID = gen.Str(rng, n)
			case 1:
				c.ClientID = "c"
				c.Will = &packet.Message{Topic: "w", Payload: gen.Bytes(rng, n), QOS: packet.QOS(v % 3), Retain: v&4 != 0}
				if n > 0 {
					c.Will.Topic = gen.Str(rng, n)
				}
			case 2:
				c.ClientID = "c"
				if n > 0 {
					c.Username = gen.Str(rng, n)
				}
			case 3:
				c.ClientID = "c"
				c.Username = "u"
				if n > 0 {
					c.Password = gen.Str(rng, n)
				}
			}
			if c.Will != nil && len(c.Will.Payload) == 0 {
				c.Will.Payload = nil
			}
			cases = append(cases, tcase{c, fmt.Sprintf("connect field len %d v%d", n, v), false})
		}
	}
	// (3) all ids for the identified packets (ids 1..65535 sampled + boundaries)
	for _, id := range gen.IDs {
		for _, p := range []packet.Generic{&packet.Puback{ID: id}, &packet.Pubrec{ID: id}, &packet.Pubrel{ID: id}, &packet.Pubcomp{ID: id}, &packet.Unsuback{ID: id}} {
			cases = append(cases, tcase{p, fmt.Sprintf("%s id %d", p.Type(), id), false})
		}
	}
	// (4) connack full matrix
	for sp := 0; sp < 2; sp++ {
		for code := 0; code < 6; code++ {
			cases = append(cases, tcase{&packet.Connack{SessionPresent: sp == 1, ReturnCode: packet.ConnackCode(code)}, "connack", false})
		}
	}
	// (5) random values
	rr := r.Rand("c01-random")
	for i, n := 0, r.Pick(150000, 8000000); i < n; i++ {
		cases = append(cases, tcase{gen.Random(rr), fmt.Sprintf("random #%d", i), false})
	}
	// (6) thorough: the largest expressible packet
	if !r.Quick() {
		p := &packet.Publish{Message: packet.Message{Topic: "max", Payload: gen.Bytes(rng, ref.MaxRemaining-5)}}
		cases = append(cases, tcase{p, "publish with remaining length 268435455", true})
	}

	poison := &packet.Publish{Message: packet.Message{Topic: "poison", Payload: bytes.Repeat([]byte{0xFF}, 70000)}}

	h.Parallel(len(cases), 16, func(i int) {
		c := cases[i]
		r.Eval()
		check(r, c, poison, i)
	})
	r.Set("cases_by_part", map[string]int{"total": len(cases)})
	h.Exit(r.Finish(200))
}

func viol(r *h.Run, key string, c tcase, msg string, refb []byte) {
	r.Violation(key, fmt.Sprintf("%s: %s (%s)", c.desc, msg, ref.Canon(c.p)), map[string]interface{}{
		"case": c.desc, "packet": ref.Canon(c.p), "reference_bytes": h.Hex(refb), "detail": msg,
	})
}

func check(r *h.Run, c tcase, poison packet.Generic, idx int) {
	p := c.p
	before := ref.Canon(p)
	refb, err := ref.Encode(p)
	if err != nil {
		r.Violation("harness", "reference encoder failed: "+err.Error(), c.desc)
		return
	}
	hd, _ := ref.ParseHeader(refb)
	sig := signature(p, hd.RL)
	r.NonTrivial(sig)
	if idx%997 == 0 {
		r.Sample(map[string]string{"case": c.desc, "packet": before, "reference_bytes": h.Hex(refb), "signature": sig})
	}
	kind := ref.Kind(p)

	defer func() {
		if e := recover(); e != nil {
			viol(r, "panic/"+kind, c, fmt.Sprintf("panic: %v", e), refb)
		}
	}()

	// Len() = reference length
	L := p.Len()
	if L != len(refb) {
		viol(r, "len/"+kind, c, fmt.Sprintf("Len()=%d but the specified encoding has %d bytes", L, len(refb)), refb)
		return
	}
	// exact buffer
	buf := make([]byte, L)
	n, err := p.Encode(buf)
	if err != nil {
		viol(r, "encode-error/"+kind, c, "Encode failed on a well-formed packet: "+err.Error(), refb)
		return
	}
	if n != L {
		viol(r, "encode-n/"+kind, c, fmt.Sprintf("Encode returned %d, Len() is %d", n, L), refb)
	}
	if !bytes.Equal(buf, refb) {
		viol(r, "layout/"+kind, c, fmt.Sprintf("encoded bytes differ from the specified layout at offset %d: got %s", firstDiff(buf, refb), h.Hex(buf)), refb)
		return
	}
	if after := ref.Canon(p); after != before {
		viol(r, "encode-mutates/"+kind, c, "Encode changed the packet: "+after, refb)
	}
	// oversized canary buffer
	if !c.big || idx%3 == 0 {
		big := bytes.Repeat([]byte{0xAA}, L+37)
		n, err = p.Encode(big)
		if err != nil || n != L || !bytes.Equal(big[:L], refb) {
			viol(r, "encode-oversized/"+kind, c, fmt.Sprintf("Encode into a larger buffer: n=%d err=%v", n, err), refb)
		}
		for _, b := range big[L:] {
			if b != 0xAA {
				viol(r, "canary/"+kind, c, "Encode wrote beyond the bytes it reported", refb)
				break
			}
		}
	}
	// decode back
	q, _ := p.Type().New()
	n, err = q.Decode(refb)
	if err != nil {
		viol(r, "decode-error/"+kind, c, "Decode failed on the packet's own encoding: "+err.Error(), refb)
		return
	}
	if n != L {
		viol(r, "decode-n/"+kind, c, fmt.Sprintf("Decode consumed %d of %d bytes", n, L), refb)
	}
	if got := ref.Canon(q); got != before {
		viol(r, "roundtrip/"+kind, c, "decoded packet differs: "+got, refb)
	}
	// stream encoder, after poisoning the buffer pool; sync and async
	if !c.big || idx%4 == 0 {
		for mode := 0; mode < 2; mode++ {
			var w bytes.Buffer
			if idx%16 == 0 {
				// push a large 0xFF-filled packet through the shared buffer pool
				// first, so stale pooled bytes would show up in the output
				_ = packet.NewEncoder(io.Discard).Write(poison, false)
			}
			enc := packet.NewEncoder(&w)
			err := enc.Write(p, mode == 1)
			if err == nil && mode == 1 {
				err = enc.Flush()
			}
			if err != nil {
				viol(r, "stream-encode-error/"+kind, c, "Encoder.Write failed: "+err.Error(), refb)
				continue
			}
			if !bytes.Equal(w.Bytes(), refb) {
				viol(r, "stream-bytes/"+kind, c, fmt.Sprintf("Encoder(async=%t) put %d bytes on the writer, first difference at %d", mode == 1, w.Len(), firstDiff(w.Bytes(), refb)), refb)
			}
		}
		// stream decoder
		dec := packet.NewDecoder(bytes.NewReader(refb))
		got, err := dec.Read()
		if err != nil {
			viol(r, "stream-decode-error/"+kind, c, "Decoder.Read failed: "+err.Error(), refb)
		} else if ref.Canon(got) != before {
			viol(r, "stream-roundtrip/"+kind, c, "Decoder.Read returned "+ref.Canon(got), refb)
		}
	}
}

func firstDiff(a, b []byte) int {
	for i := 0; i < len(a) && i < len(b); i++ {
		if a[i] != b[i] {
			return i
		}
	}
	if len(a) != len(b) {
		if len(a) < len(b) {
			return len(a)
		}
		return len(b)
	}
	return -1
}
