// C13 — at most one live connection per client id; takeover keeps the session.
// Monitors: Setup/Terminate interval bookkeeping at the backend boundary,
// CONNACK pre-send assertion (every older client with the id is Closed),
// liveness probe of all contenders, session-present replay in Setup order,
// numbered QoS 1 traffic towards the id, backend snapshot hook, stuck detector.
package c13

import (
	"bytes"
	"fmt"
	"sort"
	"strings"
	"sync"
	"testing"
	"time"

	"github.com/256dpi/gomqtt/packet"

	"verif/internal/bh"
	"verif/internal/h"
	"verif/internal/stuck"
	"verif/internal/wire"
)

const theID = "contended"

type round struct {
	Idx       int
	N         int    // contenders
	Cleans    []bool // per contender
	OldState  string // none idle mid-handshake pubrel-racing token-wait dying blocked-in-send
	BadAuth   bool   // credentials configured; a refused attempt with the same id precedes the contenders
	OldClean  bool
	Traffic   bool
	Perturb   bool
	Staggered bool
}

func (r round) String() string {
	return fmt.Sprintf("#%d old=%s(clean=%t) contenders=%d cleans=%v traffic=%t perturb=%t staggered=%t", r.Idx, r.OldState, r.OldClean, r.N, r.Cleans, r.Traffic, r.Perturb, r.Staggered) + map[bool]string{true: " refused-attempt-first", false: ""}[r.BadAuth]
}

func run(r *h.Run, rd round) {
	if r.TooMany() {
		return
	}
	r.Journal("C13 %v", rd)
	b := bh.NewBroker()
	if rd.Perturb {
		b.Mon.Perturb = r.Rand(fmt.Sprintf("c13-perturb-%d", rd.Idx))
	}
	b.Mon.Inner.KillTimeout = 30 * time.Second
	// the traffic pump runs during the whole takeover, while nobody dequeues; a
	// session queue of the default size (100) overflows on a fast machine and
	// overflow is documented as dropping messages - keep the round inside the
	// capacity the property speaks about
	b.Mon.Inner.SessionQueueSize = 1 << 14
	if rd.OldState == "token-wait" {
		b.Mon.Inner.ClientParallelPublishes = 3
	}
	user, pass := "", ""
	if rd.BadAuth {
		// credentials are configured; a connection attempt with the same client id
		// and a wrong password is refused right before the contenders arrive
		b.Mon.Inner.Credentials = map[string]string{"u": "p"}
		user, pass = "u", "p"
	}
	if rd.OldState == "pubrel-racing" {
		// the hand-over of the old connection's QoS 2 message takes a moment, so
		// that the takeover can kill the connection in the middle of it
		b.Mon.SlowPublishTopic, b.Mon.SlowPublishDelay = "other/h2", time.Duration(200+rd.Idx%7*300)*time.Microsecond
	}
	blocked := rd.OldState == "blocked-in-send"
	var gate chan struct{}
	released := false
	release := func() {
		if gate != nil && !released {
			released = true
			close(gate)
		}
	}
	defer func() {
		release()
		b.Shutdown()
	}()
	fail := func(key, msg string) {
		r.Violation(key, fmt.Sprintf("%v: %s", rd, msg), map[string]interface{}{"round": rd.String(), "detail": msg, "event_log_tail": b.Log.Dump(200)})
	}
	// (a) interval bookkeeping at Setup return
	b.Mon.OnSetupReturn = func(ci *bh.ClientInfo) {
		if ci.ID != theID {
			return
		}
		for _, other := range b.Mon.Clients() {
			if other == ci {
				continue
			}
			snap := b.Mon.Snapshot(other)
			if snap.ID == theID && snap.SetupOK && !snap.TermEntered {
				fail("two-active-clients", fmt.Sprintf("Setup returned for connection %s while connection %s with the same id is set up and not terminated", ci.Name, snap.Name))
			}
		}
	}
	// (b) CONNACK pre-send assertion
	preSend := func(fc *bh.FConn) func(packet.Generic) {
		return func(g packet.Generic) {
			ca, ok := g.(*packet.Connack)
			if !ok || ca.ReturnCode != 0 {
				return
			}
			me := b.ClientOf(fc.Name)
			if me == nil {
				return
			}
			mine := b.Mon.Snapshot(me)
			if mine.ID != theID {
				return
			}
			for _, other := range b.Mon.Clients() {
				snap := b.Mon.Snapshot(other)
				if other == me || snap.ID != theID || !snap.SetupOK || snap.SetupSeq == 0 || snap.SetupSeq > mine.SetupSeq {
					continue
				}
				// "fully terminated" = will published and backend resources released:
				// the backend's Terminate for the older client has been entered (it
				// runs after the will and holds the lock the newcomer's Setup needed)
				if !snap.TermEntered {
					fail("connack-before-old-terminated", fmt.Sprintf("CONNACK for %s is being written while the older connection %s with the same id has not been terminated", fc.Name, snap.Name))
				}
			}
		}
	}
	prep := func(fc *bh.FConn, be, pe *wire.End) { fc.PreSend = preSend(fc) }

	// publisher towards the id
	pub, _, pca, err := b.Connect("pub", bh.ConnectOpts{ID: "c13-publisher", Clean: true, AutoAck: true, User: user, Pass: pass}, nil)
	if err != nil || pca == nil {
		r.Inconclusive("publisher could not connect")
		return
	}
	var accepted []string
	var amu sync.Mutex
	pubID := packet.ID(0)
	publish := func(pl string, size int) error {
		pubID++
		payload := []byte(pl)
		if size > len(payload) {
			payload = append(payload, bytes.Repeat([]byte{'.'}, size-len(payload))...)
		}
		if err := pub.Send(&packet.Publish{ID: pubID, Message: packet.Message{Topic: "d/x", QOS: 1, Payload: payload}}); err != nil {
			return err
		}
		if _, err := bh.AwaitAck(pub, packet.PUBACK, pubID); err != nil {
			return err
		}
		amu.Lock()
		accepted = append(accepted, string(payload))
		amu.Unlock()
		return nil
	}

	// ---- the old connection
	var old *bh.Peer
	allUnclean := !rd.OldClean
	for _, c := range rd.Cleans {
		if c {
			allUnclean = false
		}
	}
	storedBefore := false
	if rd.OldState != "none" {
		var oca *packet.Connack
		old, _, oca, err = b.Connect("old", bh.ConnectOpts{ID: theID, Clean: rd.OldClean, AutoAck: !blocked, User: user, Pass: pass, Will: &packet.Message{Topic: "will/old", Payload: []byte("old-will"), QOS: 1}}, func(fc *bh.FConn, be, pe *wire.End) {
			fc.PreSend = preSend(fc)
			if blocked {
				be.SetCapacity(2048)
			}
		})
		if err != nil || oca == nil || oca.ReturnCode != 0 {
			r.Inconclusive(fmt.Sprintf("%v: old connection could not connect", rd))
			return
		}
		storedBefore = !rd.OldClean
		_ = old.Send(&packet.Subscribe{ID: 1, Subscriptions: []packet.Subscription{{Topic: "d/#", QOS: 1}}})
		if _, err := bh.AwaitAck(old, packet.SUBACK, 1); err != nil {
			r.Inconclusive("old SUBACK")
			return
		}
		switch rd.OldState {
		case "mid-handshake":
			_ = old.Send(&packet.Publish{ID: 9, Message: packet.Message{Topic: "other/y", QOS: 2, Payload: []byte("h")}})
			if _, err := bh.AwaitAck(old, packet.PUBREC, 9); err != nil {
				r.Inconclusive("old PUBREC")
				return
			}
		case "pubrel-racing":
			_ = old.Send(&packet.Publish{ID: 9, Message: packet.Message{Topic: "other/h2", QOS: 2, Payload: []byte("h2")}})
			if _, err := bh.AwaitAck(old, packet.PUBREC, 9); err != nil {
				r.Inconclusive("old PUBREC")
				return
			}
		case "token-wait":
			// all publish tokens of the old connection are bound in open QoS 2
			// handshakes; one more publish parks its processor waiting for a token
			for id := packet.ID(20); id < 23; id++ {
				_ = old.Send(&packet.Publish{ID: id, Message: packet.Message{Topic: "other/y", QOS: 2, Payload: []byte("h")}})
				if _, err := bh.AwaitAck(old, packet.PUBREC, id); err != nil {
					r.Inconclusive("old PUBREC")
					return
				}
			}
			_ = old.Send(&packet.Publish{ID: 30, Message: packet.Message{Topic: "other/y", QOS: 1, Payload: []byte("parked")}})
			time.Sleep(2 * time.Millisecond) // shaping: let the processor reach the token wait
		case "blocked-in-send":
			// the peer stops reading; big messages fill the bounded wire until the broker's send blocks
			gate = make(chan struct{})
			old.End.SetReadGate(gate)
			for i := 0; i < 4; i++ {
				if err := publish(fmt.Sprintf("big-%d", i), 3000); err != nil {
					r.Inconclusive("publisher could not fill the old connection: " + err.Error())
					return
				}
			}
			time.Sleep(5 * time.Millisecond) // shaping: let the dequeuer run into the full wire
		}
	}
	// ---- concurrent traffic towards the id
	stopTraffic := make(chan struct{})
	trafficDone := make(chan struct{})
	if rd.Traffic && !blocked {
		go func() {
			defer close(trafficDone)
			for i := 0; ; i++ {
				select {
				case <-stopTraffic:
					return
				default:
				}
				if err := publish(fmt.Sprintf("t%d-%d", rd.Idx, i), 0); err != nil {
					return
				}
			}
		}()
	} else {
		close(trafficDone)
	}

	// ---- contenders
	type res struct {
		p   *bh.Peer
		ca  *packet.Connack
		err error
	}
	results := make([]res, rd.N)
	var wg sync.WaitGroup
	start := make(chan struct{})
	for i := 0; i < rd.N; i++ {
		wg.Add(1)
		go func(i int) {
			defer wg.Done()
			<-start
			if rd.Staggered {
				time.Sleep(time.Duration(i*150) * time.Microsecond)
			}
			p, _, ca, err := b.Connect(fmt.Sprintf("cont%d", i), bh.ConnectOpts{ID: theID, Clean: rd.Cleans[i], AutoAck: true, User: user, Pass: pass, Will: &packet.Message{Topic: fmt.Sprintf("will/cont%d", i), Payload: []byte("contender-will"), QOS: packet.QOS(i % 2)}}, prep)
			results[i] = res{p, ca, err}
		}(i)
	}
	if rd.BadAuth {
		_, _, rca, rerr := b.Connect("refused", bh.ConnectOpts{ID: theID, Clean: rd.Idx%2 == 0, User: "u", Pass: "wrong"}, nil)
		if rerr != nil {
			r.Inconclusive(fmt.Sprintf("%v: the refused connection attempt hit the watchdog", rd))
			return
		}
		if rca == nil || rca.ReturnCode != packet.NotAuthorized {
			fail("refused-connect-reply", fmt.Sprintf("a CONNECT with a wrong password was answered with %v", rca))
		}
		b.WaitClosed("refused", bh.Watchdog)
	}
	if rd.OldState == "dying" {
		go func() { <-start; old.Close() }()
	}
	if rd.OldState == "pubrel-racing" {
		go func() { <-start; _ = old.Send(&packet.Pubrel{ID: 9}) }()
	}
	close(start)
	done := make(chan struct{})
	go func() { wg.Wait(); close(done) }()
	if blocked {
		// bounded-progress claim: the takeover completes; confirm a deadlock with two goroutine profiles
		select {
		case <-done:
		case <-time.After(1500 * time.Millisecond):
			confirmed, stacks := stuck.Confirm(400*time.Millisecond, b.Log.Len, "transport.(*BaseConn).Close", "sync.(*Mutex).Lock")
			if confirmed {
				fail("takeover-deadlock/old-connection-blocked-in-send", fmt.Sprintf("takeover of an id whose old connection is blocked in a send (peer not reading, bounded wire): Setup -> Client.Close -> BaseConn.Close waits for the send mutex while holding the backend's global mutex; no progress, parked goroutines:\n%s", stacks[0]))
			} else {
				r.Inconclusive(fmt.Sprintf("%v: takeover slow but no confirmed deadlock", rd))
			}
			release()
			select {
			case <-done:
			case <-time.After(bh.Watchdog):
				fail("takeover-stuck", "contenders did not finish even after the blocked peer resumed reading")
				return
			}
			close(stopTraffic)
			r.Eval()
			return
		}
	} else {
		select {
		case <-done:
		case <-time.After(bh.Watchdog):
			confirmed, stacks := stuck.Confirm(time.Second, b.Log.Len, "github.com/256dpi/gomqtt/broker")
			if confirmed {
				fail("takeover-stuck", fmt.Sprintf("concurrent CONNECTs with one id did not all finish; parked broker goroutines, e.g.:\n%s", stacks[0]))
			} else {
				r.Inconclusive(fmt.Sprintf("%v: contenders slow, no confirmed stuck state", rd))
			}
			return
		}
	}
	close(stopTraffic)
	<-trafficDone

	// ---- (c) exactly one survivor
	alive := []int{}
	for i, rs := range results {
		if rs.err != nil {
			r.Inconclusive(fmt.Sprintf("%v: contender %d CONNACK watchdog", rd, i))
			return
		}
		if rs.ca == nil || rs.ca.ReturnCode != 0 {
			continue
		}
		if err := bh.Ping(rs.p); err == nil {
			alive = append(alive, i)
		}
	}
	if old != nil && rd.OldState != "dying" {
		if err := bh.Ping(old); err == nil {
			fail("old-survives", "the old connection still answers PINGREQ after the takeover")
		}
	}
	if len(alive) != 1 {
		fail("survivors", fmt.Sprintf("%d contenders are alive after %d simultaneous CONNECTs with one id (alive: %v)", len(alive), rd.N, alive))
		return
	}
	// ---- (g) a QoS 2 message whose PUBREL raced with the takeover is handed on
	// exactly once, whoever completes the handshake
	if rd.OldState == "pubrel-racing" && allUnclean {
		surv := results[alive[0]].p
		gotComp := false
		for _, g := range old.All() {
			if pc, ok := g.(*packet.Pubcomp); ok && pc.ID == 9 {
				gotComp = true
			}
		}
		if !gotComp {
			// as a client would: no PUBCOMP seen, so the PUBREL is retransmitted
			_ = surv.Send(&packet.Pubrel{ID: 9})
			if _, err := bh.AwaitAck(surv, packet.PUBCOMP, 9); err != nil {
				fail("pubrel-unanswered-after-takeover", fmt.Sprintf("the surviving connection retransmitted PUBREL 9 and got no PUBCOMP: %v", err))
				return
			}
		}
		n := 0
		for _, ci := range b.Mon.Clients() {
			for _, m := range b.Mon.Snapshot(ci).Publishes {
				if m.Topic == "other/h2" {
					n++
				}
			}
		}
		if n != 1 {
			fail("qos2-handed-on-not-once-across-takeover", fmt.Sprintf("the old connection's QoS 2 message (PUBREL sent while the takeover was in progress, retransmitted by the survivor: %t) was handed to the backend %d times", !gotComp, n))
		}
	}
	// ---- (d) session-present in Setup order
	type su struct {
		seq   int64
		name  string
		clean bool
	}
	var order []su
	for _, ci := range b.Mon.Clients() {
		s := b.Mon.Snapshot(ci)
		if s.ID == theID && s.SetupOK && s.Name != "old" {
			order = append(order, su{s.SetupSeq, s.Name, s.Clean})
		}
	}
	sort.Slice(order, func(i, j int) bool { return order[i].seq < order[j].seq })
	stored := storedBefore
	overlapped := 0
	for _, o := range order {
		want := !o.clean && stored
		var idx int
		fmt.Sscanf(o.name, "cont%d", &idx)
		if ca := results[idx].ca; ca != nil && ca.ReturnCode == 0 && ca.SessionPresent != want {
			fail("session-present", fmt.Sprintf("contender %s (clean=%t), %d-th in Setup order %v, got session-present=%t, expected %t", o.name, o.clean, overlapped, order, ca.SessionPresent, want))
		}
		stored = !o.clean
		overlapped++
	}
	if len(order) >= 2 {
		r.NonTrivial(rd.String())
	}
	// terminate bookkeeping: every set-up client of the id except the survivor is terminated exactly once
	for _, ci := range b.Mon.Clients() {
		s := b.Mon.Snapshot(ci)
		if s.ID != theID || !s.SetupOK {
			continue
		}
		isSurvivor := s.Name == fmt.Sprintf("cont%d", alive[0])
		if !isSurvivor {
			select {
			case <-s.Client.Closed():
			case <-time.After(bh.Watchdog):
				fail("loser-not-closed", fmt.Sprintf("connection %s lost the takeover but never fired Closed()", s.Name))
				continue
			}
			s = b.Mon.Snapshot(ci)
			if s.Terminated != 1 {
				fail("terminate-count", fmt.Sprintf("connection %s: Terminate called %d times", s.Name, s.Terminated))
			}
			// a contender that the backend had set up and that was displaced in turn
			// (possibly before its own CONNACK was written) is an older connection like
			// any other: its will is published, once
			if strings.HasPrefix(s.Name, "cont") {
				if n := willCount(s, "will/"+s.Name); n != 1 {
					fail("displaced-contender-will", fmt.Sprintf("connection %s was set up by the backend and displaced by a later contender; its will was published %d times", s.Name, n))
				}
			}
		} else {
			if s.Terminated != 0 {
				fail("terminate-count", fmt.Sprintf("surviving connection %s was terminated", s.Name))
			}
			if n := willCount(s, "will/"+s.Name); n != 0 {
				fail("survivor-will", fmt.Sprintf("the will of the surviving connection %s was published %d times", s.Name, n))
			}
		}
	}
	// the old connection's will: published exactly once unless it was clean... (accepted client, no DISCONNECT)
	if old != nil {
		if ci := b.ClientOf("old"); ci != nil {
			n := 0
			for _, m := range b.Mon.Snapshot(ci).Publishes {
				if m.Topic == "will/old" {
					n++
				}
			}
			if n != 1 {
				fail("old-will", fmt.Sprintf("the displaced connection's will was published %d times", n))
			}
		}
	}
	// ---- (f) backend bookkeeping snapshot: publisher + survivor
	active, temp, _, storedActive := b.Mon.Inner.VerifSnapshot()
	survivorClean := rd.Cleans[alive[0]]
	wantTemp := 1 // publisher (clean)
	if survivorClean {
		wantTemp++
	}
	if active != 2 || temp != wantTemp || (survivorClean && storedActive != 0) || (!survivorClean && storedActive != 1) {
		fail("backend-bookkeeping", fmt.Sprintf("after the takeover the backend holds %d active clients, %d temporary sessions, %d stored sessions with an active client (expected 2, %d, %d)", active, temp, storedActive, wantTemp, 1-boolInt(survivorClean)))
	}
	// ---- (e) no loss / no second non-duplicate delivery when every party used a persistent session
	if old != nil && allUnclean && rd.OldState != "dying" {
		surv := results[alive[0]].p
		if err := publish("final-marker", 0); err == nil {
			ok := surv.WaitCond(bh.Watchdog, func(all []packet.Generic) bool {
				for i := len(all) - 1; i >= 0; i-- {
					if p, is := all[i].(*packet.Publish); is && string(p.Message.Payload) == "final-marker" {
						return true
					}
				}
				return false
			})
			if !ok {
				fail("delivery-stalled", "the surviving connection never received the final marker")
				return
			}
			got := map[string]int{}
			nondup := map[string]int{}
			peers := []*bh.Peer{old}
			for _, rs := range results {
				peers = append(peers, rs.p)
			}
			for _, p := range peers {
				for _, g := range p.All() {
					if pub, is := g.(*packet.Publish); is {
						got[string(pub.Message.Payload)]++
						if !pub.Dup {
							nondup[string(pub.Message.Payload)]++
						}
					}
				}
			}
			amu.Lock()
			for _, pl := range accepted {
				if got[pl] == 0 {
					fail("message-lost-in-takeover", fmt.Sprintf("message %.20s was acknowledged to its publisher and no connection of the id ever received it", pl))
					break
				}
				if nondup[pl] > 1 {
					fail("message-offered-twice-as-new", fmt.Sprintf("message %.20s was delivered %d times without the DUP flag", pl, nondup[pl]))
					break
				}
			}
			amu.Unlock()
		}
	}
	r.Distinct("setup_orders", fmt.Sprint(order))
	r.Eval()
	if rd.Idx < 3 {
		r.Sample(map[string]interface{}{"round": rd.String(), "setup_order": fmt.Sprint(order), "survivor": alive[0]})
	}
}

func boolInt(b bool) int {
	if b {
		return 1
	}
	return 0
}

func willCount(s bh.ClientInfo, topic string) int {
	n := 0
	for _, m := range s.Publishes {
		if m.Topic == topic {
			n++
		}
	}
	return n
}

func TestCheck(t *testing.T) {
	r := h.New("C13", "exploration")
	r.Rule("rounds of 2-8 simultaneous CONNECTs with one client id (clean/unclean mixed, started together or staggered by 150us) against an old connection that is absent / idle / mid QoS 2 handshake / sending its PUBREL at that very moment / parked waiting for a publish token / dying by itself at the same moment / blocked in a send (bounded wire, peer not reading), in a fifth of the idle / mid-handshake rounds a connection attempt with the same id and a wrong password is refused first (credentials configured), with a publisher pumping numbered QoS 1 messages towards the id and backend-boundary perturbation; monitors: Setup/Terminate interval bookkeeping, CONNACK pre-send assertion on Closed() of every older client of the id, PINGREQ liveness probe of all contenders (exactly one survivor), session-present replay in recorded Setup order, Terminate counts, displaced will (of the old connection and of every contender that was set up and displaced in turn, also before its own CONNACK), backend bookkeeping snapshot, no loss / no second non-duplicate delivery when all parties are persistent. Non-trivial = rounds in which >= 2 Setup calls for the id succeeded; distinct by round parameters; distinct Setup orders are counted separately")
	r.Assume("the blocked-in-send variant is the recorded known finding (takeover deadlock); its detection uses a 1.5 s bound confirmed by two goroutine profiles")
	rng := r.Rand("c13")
	n := r.Pick(1200, 25000)
	var rounds []round
	states := []string{"none", "idle", "idle", "mid-handshake", "dying", "idle", "token-wait", "pubrel-racing"}
	for i := 0; i < n; i++ {
		rd := round{Idx: i, N: 2 + rng.Intn(7), OldState: states[rng.Intn(len(states))], OldClean: rng.Intn(3) == 0, Traffic: rng.Intn(2) == 0, Perturb: rng.Intn(2) == 0, Staggered: rng.Intn(3) == 0}
		if rd.OldState == "token-wait" {
			rd.Traffic = false // a stuck takeover must show as "no progress at all"
		}
		rd.BadAuth = i%5 == 3 && (rd.OldState == "idle" || rd.OldState == "mid-handshake")
		allUnclean := rng.Intn(3) == 0
		if rd.OldState == "pubrel-racing" {
			allUnclean = true // the message must survive in the session
		}
		for k := 0; k < rd.N; k++ {
			rd.Cleans = append(rd.Cleans, !allUnclean && rng.Intn(2) == 0)
		}
		if allUnclean {
			rd.OldClean = false
		}
		rounds = append(rounds, rd)
	}
	// the blocked-in-send variant (known finding): a few rounds only, each costs ~2 s
	for k := 0; k < r.Pick(2, 6); k++ {
		rounds = append(rounds, round{Idx: n + k, N: 2, Cleans: []bool{false, false}, OldState: "blocked-in-send"})
	}
	h.Parallel(len(rounds), 8, func(i int) { run(r, rounds[i]) })
	r.Count("rounds", int64(len(rounds)))
	h.Exit(r.Finish(50))
}
