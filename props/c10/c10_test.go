// C10 — client library: inbound QoS 2 is passed to the application exactly once
// per handshake, handshakes always finish (PUBREC for every QoS 2 PUBLISH,
// PUBCOMP for every PUBREL, also for unknown ids), QoS 1 is acknowledged after
// the callback, and nothing is acknowledged when the callback returns an error
// (the connection is closed instead).
package c10

import (
	"errors"
	"fmt"
	"strings"
	"sync"
	"testing"
	"time"

	"github.com/256dpi/gomqtt/client"
	"github.com/256dpi/gomqtt/packet"

	"verif/internal/bh"
	"verif/internal/ch"
	"verif/internal/h"
)

type item struct {
	Kind string // pub rel drop
	ID   packet.ID
	QoS  packet.QOS
	Dup  bool
	N    int
	Op   string // own: unsub sub pub1 (a call of the application on the same client)
}

func (i item) String() string {
	switch i.Kind {
	case "drop":
		return "drop+resume"
	case "rel":
		return fmt.Sprintf("PUBREL(%d)", i.ID)
	case "own":
		return "app:" + i.Op
	}
	d := ""
	if i.Dup {
		d = ",dup"
	}
	return fmt.Sprintf("PUBLISH(%d,q%d%s,m%d)", i.ID, i.QoS, d, i.N)
}

type connFault struct {
	Conn int
	F    bh.Fault
}

type scenario struct {
	Script []item
	Plan   string // per application-callback invocation: 'n' nil, 'e' error (default nil)
	Early  bool   // AlwaysAnnounceOnPublish
	Clean  bool   // the client connects with a clean session (scripts without a connection loss only)
	Fault  *connFault
}

func (s scenario) String() string {
	f := "no fault"
	if s.Fault != nil {
		f = fmt.Sprintf("conn%d:%v", s.Fault.Conn, s.Fault.F)
	}
	cl := ""
	if s.Clean {
		cl = " clean-session"
	}
	return fmt.Sprintf("%v plan=%q early=%t%s | %s", s.Script, s.Plan, s.Early, cl, f)
}

func payload(it item) string { return fmt.Sprintf("m%d-id%d-q%d", it.N, it.ID, it.QoS) }

var errRejected = errors.New("application rejects this message")

type result struct {
	sends        []int
	inconclusive string
}

func run(r *h.Run, sc scenario) result {
	var res result
	if r.TooMany() {
		return res
	}
	r.Journal("C10 %v", sc)
	srv := ch.NewServer()
	srv.Prep = func(c *ch.Conn) {
		if sc.Fault != nil && sc.Fault.Conn == c.N {
			c.FC.AddFault(sc.Fault.F)
		}
		// the scripted broker only answers CONNECT; everything else is scripted
		c.Peer.AutoReply = func(g packet.Generic) []packet.Generic {
			switch v := g.(type) {
			case *packet.Connect:
				return []packet.Generic{&packet.Connack{SessionPresent: c.N > 1}}
			case *packet.Unsubscribe:
				return []packet.Generic{&packet.Unsuback{ID: v.ID}}
			case *packet.Subscribe:
				return []packet.Generic{&packet.Suback{ID: v.ID, ReturnCodes: []packet.QOS{0}}}
			case *packet.Publish:
				if v.Message.QOS == 1 {
					return []packet.Generic{&packet.Puback{ID: v.ID}}
				}
			}
			return nil
		}
	}
	fail := func(key, msg string) {
		r.Violation(key, fmt.Sprintf("%v: %s", sc, msg), map[string]interface{}{"scenario": sc.String(), "detail": msg, "event_log": srv.Log.Dump(200)})
	}
	sess := ch.NewSession(srv.Log)
	var mu sync.Mutex
	cbN := 0
	markerSeen := map[string]bool{}
	var cur *client.Client
	connIdx := 0
	var clientErr error
	connect := func() (*ch.Conn, bool) {
		connIdx++
		name := fmt.Sprintf("cli#%d", connIdx)
		c := client.New()
		c.Session = sess
		c.Callback = func(m *packet.Message, err error) error {
			if err != nil {
				srv.Log.Add(name, "callback-error", nil, err.Error())
				mu.Lock()
				clientErr = err
				mu.Unlock()
				return nil
			}
			pl := string(m.Payload)
			if strings.HasPrefix(pl, "fence-") {
				mu.Lock()
				markerSeen[pl] = true
				mu.Unlock()
				srv.Log.Add(name, "fence", nil, pl)
				return nil
			}
			mu.Lock()
			i := cbN
			cbN++
			mu.Unlock()
			if i < len(sc.Plan) && sc.Plan[i] == 'e' {
				srv.Log.Add(name, "callback", nil, "REJECT "+pl)
				return errRejected
			}
			if i < len(sc.Plan) && sc.Plan[i] == 'c' {
				// the application accepts the message and, from another goroutine,
				// closes the client while this callback is still running
				srv.Log.Add(name, "callback", nil, "ACCEPT "+pl)
				go func() { _ = c.Close() }()
				time.Sleep(2 * time.Millisecond) // shaping: let Close get going
				return nil
			}
			srv.Log.Add(name, "callback", nil, "ACCEPT "+pl)
			return nil
		}
		cfg := ch.Config(srv, "c10-client", sc.Clean)
		cfg.AlwaysAnnounceOnPublish = sc.Early
		cf, err := c.Connect(cfg)
		cur = c
		if err != nil {
			return nil, false
		}
		if cf.Wait(2*time.Second) != nil {
			return srv.WaitConn(connIdx, time.Second), false
		}
		return srv.WaitConn(connIdx, time.Second), true
	}
	closeCur := func() bool {
		done := make(chan struct{})
		c := cur
		go func() { _ = c.Close(); close(done) }()
		select {
		case <-done:
			return true
		case <-time.After(5 * time.Second):
			fail("close-hangs", "Client.Close did not return")
			return false
		}
	}
	conn, up := connect()
	fenceN := 0
	// fence: a QoS 0 marker goes through the client's single processor; once its
	// callback ran, everything sent before has been processed. Returns false if
	// the connection ended instead.
	fence := func() bool {
		if conn == nil || !up {
			return false
		}
		fenceN++
		tag := fmt.Sprintf("fence-%d", fenceN)
		if conn.Peer.Send(&packet.Publish{Message: packet.Message{Topic: "f", Payload: []byte(tag)}}) != nil {
			return false
		}
		deadline := time.Now().Add(bh.Watchdog)
		for time.Now().Before(deadline) {
			mu.Lock()
			seen := markerSeen[tag]
			mu.Unlock()
			if seen {
				return true
			}
			if conn.Peer.WaitEOF(300 * time.Microsecond) {
				return false
			}
		}
		res.inconclusive = "fence watchdog"
		return false
	}
	resume := func() bool {
		if conn != nil {
			conn.Peer.Close()
		}
		if !closeCur() {
			return false
		}
		for try := 0; try < 3; try++ {
			conn, up = connect()
			if up {
				return true
			}
			if conn != nil {
				conn.Peer.Close()
			}
			if !closeCur() {
				return false
			}
		}
		return false
	}
	for _, it := range sc.Script {
		if !up {
			if !resume() {
				break
			}
		}
		switch it.Kind {
		case "drop":
			if !resume() {
				res.inconclusive = "resume failed"
			}
			continue
		case "pub":
			p := &packet.Publish{Dup: it.Dup, Message: packet.Message{Topic: "in/x", QOS: it.QoS, Payload: []byte(payload(it))}}
			if it.QoS > 0 {
				p.ID = it.ID
			}
			_ = conn.Peer.Send(p)
		case "rel":
			_ = conn.Peer.Send(&packet.Pubrel{ID: it.ID})
		case "own":
			// the application uses the same client for a flow of its own; the
			// packet ids of the two directions are independent
			var f client.GenericFuture
			var err error
			switch it.Op {
			case "unsub":
				f, err = cur.Unsubscribe("own/x")
			case "sub":
				f, err = cur.Subscribe("own/x", 0)
			default:
				f, err = cur.Publish("own/y", []byte("own"), 1, false)
			}
			if err == nil && f != nil {
				_ = f.Wait(2 * time.Second)
			}
		}
		if !fence() {
			up = false
			if res.inconclusive != "" {
				closeCur()
				return res
			}
			// the connection ended (rejected callback or injected fault): the client must be closed
			if !conn.Peer.WaitEOF(bh.Watchdog) {
				fail("connection-stays-open", "the item was not processed up to the fence and the connection did not close either")
			}
		}
	}
	// acknowledgements the client wrote may still be on their way to the scripted broker's reader
	syncAcks := func() {
		if conn == nil {
			return
		}
		want := 0
		for _, e := range srv.Log.Events() {
			if e.Who == conn.FC.Name && e.Kind == "csend" {
				switch e.Pkt.(type) {
				case *packet.Puback, *packet.Pubrec, *packet.Pubcomp:
					want++
				}
			}
		}
		conn.Peer.WaitCond(time.Second, func(all []packet.Generic) bool {
			n := 0
			for _, g := range all {
				switch g.(type) {
				case *packet.Puback, *packet.Pubrec, *packet.Pubcomp:
					n++
				}
			}
			return n >= want
		})
	}
	// completion phase like a broker would do it: retransmit PUBREL for every id
	// whose PUBREC arrived and whose PUBCOMP did not (the handshake must terminate)
	for round := 0; round < 3; round++ {
		if !up && !resume() {
			break
		}
		syncAcks()
		pending := map[packet.ID]bool{}
		for _, c := range srv.Conns() {
			for _, g := range c.Peer.All() {
				switch v := g.(type) {
				case *packet.Pubrec:
					pending[v.ID] = true
				case *packet.Pubcomp:
					delete(pending, v.ID)
				}
			}
		}
		if len(pending) == 0 {
			break
		}
		for id := range pending {
			_ = conn.Peer.Send(&packet.Pubrel{ID: id})
		}
		if !fence() {
			up = false
		}
	}
	finalUp := up && fence()
	closeCur()
	for _, c := range srv.Conns() {
		s, _ := c.FC.Counts()
		res.sends = append(res.sends, s)
	}
	if res.inconclusive != "" {
		return res
	}

	// ------------------------------------------------------------ oracle
	// walk the event log per connection in order; model driven by what the client received
	stored := map[packet.ID]string{} // session-wide: QoS 2 PUBLISH received, not yet released to the application
	accepted := map[string]int{}
	expectedQ2 := map[string]int{}
	type connState struct {
		dead     bool // a callback rejected a message on this connection
		deadSeq  int64
		lastRecv packet.Generic
		awaiting string // what the last processed packet still owes: "PUBACK:id" etc.
	}
	cs := map[string]*connState{}
	get := func(n string) *connState {
		if cs[n] == nil {
			cs[n] = &connState{}
		}
		return cs[n]
	}
	owed := map[string]map[string]int64{} // conn -> "KIND:id" -> seq since owed
	owe := func(conn, what string, seq int64) {
		if owed[conn] == nil {
			owed[conn] = map[string]int64{}
		}
		owed[conn][what] = seq
	}
	fenced := map[string]int64{} // conn -> seq of last fence callback
	var pendingCb []string       // payloads whose callback is expected next on the connection
	for _, e := range srv.Log.Events() {
		if !strings.HasPrefix(e.Who, "cli#") {
			continue
		}
		st := get(e.Who)
		switch e.Kind {
		case "crecv":
			switch v := e.Pkt.(type) {
			case *packet.Publish:
				pl := string(v.Message.Payload)
				if strings.HasPrefix(pl, "fence-") {
					continue
				}
				if st.dead {
					continue
				}
				switch {
				case v.Message.QOS <= 1 || sc.Early:
					pendingCb = append(pendingCb, pl)
					if v.Message.QOS == 1 {
						owe(e.Who, fmt.Sprintf("Puback:%d:%s", v.ID, pl), e.Seq)
					}
					if v.Message.QOS == 2 {
						stored[v.ID] = pl
						owe(e.Who, fmt.Sprintf("Pubrec:%d:%s", v.ID, pl), e.Seq)
					}
				default:
					stored[v.ID] = pl
					owe(e.Who, fmt.Sprintf("Pubrec:%d:%s", v.ID, pl), e.Seq)
				}
			case *packet.Pubrel:
				if st.dead {
					continue
				}
				pl, ok := stored[v.ID]
				if ok && !sc.Early {
					pendingCb = append(pendingCb, pl)
					expectedQ2[pl]++
				}
				if ok && sc.Early {
					delete(stored, v.ID) // released without a further callback
				}
				owe(e.Who, fmt.Sprintf("Pubcomp:%d:%s", v.ID, pl), e.Seq)
			}
		case "callback":
			parts := strings.SplitN(e.Note, " ", 2)
			pl := parts[1]
			if (len(pendingCb) == 0 || pendingCb[0] != pl) && strings.Contains(pl, "-q2") && accepted[pl] >= 1 && !sc.Early {
				fail("qos2-delivered-twice", fmt.Sprintf("QoS 2 message %s was passed to the application again (event %d) although its handshake had already released it once", pl, e.Seq))
				return res
			}
			if len(pendingCb) == 0 || pendingCb[0] != pl {
				fail("unexpected-callback", fmt.Sprintf("the application callback was invoked for %s (event %d) while the model expects %v next", pl, e.Seq, pendingCb))
				return res
			}
			pendingCb = pendingCb[1:]
			if parts[0] == "REJECT" {
				st.dead = true
				st.deadSeq = e.Seq
				// nothing is owed for the rejected message any more; a rejected QoS 2 release stays stored
				for k := range owed[e.Who] {
					if strings.HasSuffix(k, ":"+pl) && !strings.HasPrefix(k, "Pubrec") {
						delete(owed[e.Who], k)
					}
					if sc.Early && strings.HasSuffix(k, ":"+pl) {
						delete(owed[e.Who], k)
					}
				}
				if strings.Contains(pl, "-q2") && !sc.Early {
					expectedQ2[pl]--
				}
				if sc.Early && strings.Contains(pl, "-q2") {
					for id, p := range stored {
						if p == pl {
							delete(stored, id)
						}
					}
				}
			} else {
				accepted[pl]++
				if strings.Contains(pl, "-q2") && !sc.Early {
					for id, p := range stored {
						if p == pl {
							delete(stored, id)
						}
					}
				}
			}
		case "fence":
			fenced[e.Who] = e.Seq
		case "csend":
			id, has := packet.GetID(e.Pkt)
			if !has {
				continue
			}
			kind := e.Pkt.Type().String()
			if kind != "Puback" && kind != "Pubrec" && kind != "Pubcomp" {
				continue
			}
			if st.dead {
				fail("ack-after-rejection", fmt.Sprintf("the callback returned an error on %s (event %d) and the client still wrote %s id=%d afterwards", e.Who, st.deadSeq, kind, id))
				return res
			}
			found := ""
			for k := range owed[e.Who] {
				if strings.HasPrefix(k, fmt.Sprintf("%s:%d:", kind, id)) {
					found = k
				}
			}
			if found == "" {
				fail("unsolicited-ack", fmt.Sprintf("the client wrote %s id=%d on %s without an unanswered packet asking for it", kind, id, e.Who))
				return res
			}
			pl := found[strings.LastIndex(found, ":")+1:]
			// QoS 1: PUBACK only after the callback ran; default mode QoS 2: PUBCOMP only after the callback
			if kind == "Puback" || (kind == "Pubcomp" && !sc.Early && pl != "") || (kind == "Pubrec" && sc.Early) {
				for _, p := range pendingCb {
					if p == pl {
						fail("ack-before-callback", fmt.Sprintf("%s id=%d for %s was written before the application callback ran", kind, id, pl))
						return res
					}
				}
			}
			delete(owed[e.Who], found)
		}
	}
	// owed acknowledgements on connections that stayed up past a later fence
	for conn, m := range owed {
		for k, since := range m {
			if fenced[conn] > since && !get(conn).dead {
				key := "ack-missing"
				if strings.HasPrefix(k, "Pubcomp") && strings.HasSuffix(k, ":") {
					key = "pubrel-for-unknown-id-unanswered"
				}
				fail(key, fmt.Sprintf("connection %s stayed up (a later fence was processed) but the client never wrote %s", conn, strings.TrimSuffix(k, ":")))
			}
		}
	}
	if !sc.Early {
		for pl, n := range accepted {
			if strings.Contains(pl, "-q2") && n > expectedQ2[pl] {
				fail("qos2-delivered-twice", fmt.Sprintf("QoS 2 message %s was passed to the application (and accepted) %d times for %d completed handshake(s)", pl, n, expectedQ2[pl]))
			}
		}
		for pl, n := range expectedQ2 {
			if accepted[pl] < n && finalUp {
				fail("qos2-not-delivered", fmt.Sprintf("QoS 2 message %s: %d handshake(s) released it, the application accepted it %d times", pl, n, accepted[pl]))
			}
		}
	}
	// a connection on which a callback rejected a message must have been closed by the client
	for name, st := range cs {
		if st.dead {
			var n int
			fmt.Sscanf(name, "cli#%d", &n)
			if n >= 1 && n <= len(srv.Conns()) && !srv.Conns()[n-1].Peer.EOF() {
				fail("connection-stays-open", fmt.Sprintf("the callback returned an error on %s but the connection was not closed", name))
			}
		}
	}
	mu.Lock()
	_ = clientErr
	mu.Unlock()
	r.Distinct("event_traces", srv.Log.Trace())
	return res
}

func scripts(depth int, ids int) [][]item {
	var alpha []item
	for id := 1; id <= ids; id++ {
		alpha = append(alpha, item{Kind: "pub", ID: packet.ID(id), QoS: 2}, item{Kind: "rel", ID: packet.ID(id)})
	}
	alpha = append(alpha, item{Kind: "pub", ID: 1, QoS: 2, Dup: true}, item{Kind: "pub", ID: 1, QoS: 1}, item{Kind: "pub", QoS: 0}, item{Kind: "drop"})
	return scriptsOver(alpha, depth)
}

// scriptsOver enumerates all scripts up to depth over an alphabet and numbers the messages.
func scriptsOver(alpha []item, depth int) [][]item {
	var out [][]item
	var rec func(cur []item)
	rec = func(cur []item) {
		if len(cur) > 0 {
			out = append(out, append([]item(nil), cur...))
		}
		if len(cur) == depth {
			return
		}
		for _, a := range alpha {
			rec(append(cur, a))
		}
	}
	rec(nil)
	for _, sc := range out {
		n := 0
		last := map[packet.ID]int{}
		for i := range sc {
			if sc[i].Kind != "pub" {
				continue
			}
			if sc[i].Dup && last[sc[i].ID] != 0 {
				sc[i].N = last[sc[i].ID]
				continue
			}
			n++
			sc[i].N = n
			if sc[i].QoS == 2 {
				last[sc[i].ID] = n
			}
		}
	}
	return out
}

func interesting(sc []item) bool {
	for _, i := range sc {
		if i.Kind == "pub" && i.QoS == 2 {
			return true
		}
	}
	return false
}

func TestCheck(t *testing.T) {
	r := h.New("C10", "fault_enumeration")
	depth := r.Pick(3, 4)
	r.Rule(fmt.Sprintf("all scripted-broker scripts of length <= %d over {PUBLISH q2(id 1,2), PUBLISH q2(1,dup), PUBLISH q1(1), PUBLISH q0, PUBREL(1,2), drop+resume} (plus sampled longer ones with 3 ids in thorough) all scripts of length <= 3 over {PUBLISH q1(1), PUBLISH q1(1,dup), PUBLISH q1(2,dup), drop+resume}, and scripts mixing the QoS 2 handshakes of ids 1,2 with flows of the application's own on the same client (Subscribe, Unsubscribe, Publish QoS 1, whose acknowledgements carry the same numeric ids) x callback plans {all nil, error at the 1st / 2nd / 3rd application callback, the application closing the client from another goroutine during the 1st / 2nd callback} x both callback timing modes, each first run without faults and then with every single client-side send fault (k-th Send of each connection, before/after: i.e. at every acknowledgement the client writes); a QoS 0 marker through the client's single processor fences every step; a completion phase retransmits PUBREL for every PUBREC without PUBCOMP; the scripts without a connection loss are run once more on a clean-session client. Oracle: model driven by what the client received (event log), callback invocations, acknowledgements written. Non-trivial = scripts with a complete or interrupted QoS 2 handshake; distinct by (script, plan, mode, fault)", depth))
	r.Assume("exactly-once is asserted in the default callback mode only (announce-on-publish documents redelivery); deliveries the application rejects are not counted")
	all := scripts(depth, 2)
	rng := r.Rand("c10")
	var base []scenario
	for i, s := range all {
		if r.Quick() && len(s) == 3 && !interesting(s) && i%3 != 0 {
			continue
		}
		for _, plan := range []string{"", "e", "ne", "nne"} {
			if plan != "" && r.Quick() && (i+len(plan))%2 == 0 {
				continue
			}
			base = append(base, scenario{Script: s, Plan: plan, Early: false})
			if i%3 == 0 {
				base = append(base, scenario{Script: s, Plan: plan, Early: true})
			}
		}
		if interesting(s) && i%2 == 0 {
			// the application closes the client during the 1st / 2nd callback
			base = append(base, scenario{Script: s, Plan: []string{"c", "nc"}[i/2%2], Early: false})
		}
	}
	// QoS 1 redeliveries: the dup flag must change nothing (callback first, PUBACK
	// only if accepted)
	q1 := scriptsOver([]item{{Kind: "pub", ID: 1, QoS: 1}, {Kind: "pub", ID: 1, QoS: 1, Dup: true}, {Kind: "pub", ID: 2, QoS: 1, Dup: true}, {Kind: "drop"}}, 3)
	for i, s := range q1 {
		for _, plan := range []string{"", "e", "ne", "nne"} {
			base = append(base, scenario{Script: s, Plan: plan, Early: (i+len(plan))%3 == 0})
		}
	}
	// the application's own flows (their acknowledgements carry the same numeric
	// packet ids as the inbound messages) in between the inbound handshakes
	ownAlpha := []item{{Kind: "pub", ID: 1, QoS: 2}, {Kind: "rel", ID: 1}, {Kind: "pub", ID: 2, QoS: 2}, {Kind: "rel", ID: 2}, {Kind: "own", Op: "unsub"}, {Kind: "own", Op: "sub"}, {Kind: "own", Op: "pub1"}}
	for i, s := range scriptsOver(ownAlpha, r.Pick(3, 4)) {
		own, inbound := false, false
		for _, it := range s {
			if it.Kind == "own" {
				own = true
			} else {
				inbound = true
			}
		}
		if !own || !inbound {
			continue
		}
		base = append(base, scenario{Script: s, Plan: []string{"", "e", "ne"}[i%3], Early: i%5 == 0})
	}
	if !r.Quick() {
		long := scripts(5, 3)
		for k := 0; k < 4000; k++ {
			s := long[rng.Intn(len(long))]
			base = append(base, scenario{Script: s, Plan: []string{"", "e", "ne", "nne", "nnne"}[rng.Intn(5)], Early: rng.Intn(4) == 0})
		}
	}
	r.Count("base_scenarios", int64(len(base)))
	// the same handshakes on a clean-session client: scripts that never lose the
	// connection, callbacks that accept (what a PUBREL is answered with must not
	// depend on the clean-session flag)
	nclean := 0
	for i, s := range all {
		hasDrop := false
		for _, it := range s {
			if it.Kind == "drop" {
				hasDrop = true
			}
		}
		if hasDrop || (r.Quick() && len(s) == 3 && i%2 != 0) {
			continue
		}
		base = append(base, scenario{Script: s, Plan: "", Early: i%3 == 0, Clean: true})
		nclean++
	}
	r.Count("clean_session_scenarios", int64(nclean))
	var nfault int64
	var cmu sync.Mutex
	h.Parallel(len(base), 16, func(i int) {
		sc := base[i]
		res := run(r, sc)
		r.Eval()
		if res.inconclusive != "" {
			r.Inconclusive(fmt.Sprintf("%v: %s", sc, res.inconclusive))
			return
		}
		if interesting(sc.Script) {
			r.NonTrivial(sc.String())
		}
		if i < 3 {
			r.Sample(map[string]interface{}{"scenario": sc.String(), "client_sends_per_connection": res.sends})
		}
		if (r.Quick() && i%4 != 0) || sc.Clean {
			return
		}
		for c, n := range res.sends {
			for k := 2; k <= n; k++ { // #1 is the CONNECT
				for _, w := range []string{"before", "after"} {
					s2 := sc
					s2.Fault = &connFault{Conn: c + 1, F: bh.Fault{Dir: "send", K: k, When: w}}
					res2 := run(r, s2)
					r.Eval()
					if res2.inconclusive != "" {
						r.Inconclusive(fmt.Sprintf("%v: %s", s2, res2.inconclusive))
						continue
					}
					r.NonTrivial(s2.String())
					cmu.Lock()
					nfault++
					cmu.Unlock()
				}
			}
		}
	})
	r.Count("fault_runs", nfault)
	h.Exit(r.Finish(50))
}
