// C18 — packet ids (never zero, no repeat within 65535 allocations, reset) and
// the packet store as a per-direction map. Monitors: reference successor
// function over all 65536 counter states, distinctness walks, concurrent
// draws, map model over bounded-exhaustive op sequences, porcupine on
// concurrent histories, race detector.
package c18

import (
	"fmt"
	"sort"
	"strings"
	"sync"
	"sync/atomic"
	"testing"
	"time"

	"github.com/256dpi/gomqtt/packet"
	"github.com/256dpi/gomqtt/session"
	"github.com/anishathalye/porcupine"

	"verif/internal/h"
	"verif/internal/lin"
)

func succ(id uint16) uint16 {
	if id == 65535 {
		return 1
	}
	return id + 1
}

// ---- packet pool for the store (identity = index) -----------------------
var pool = []packet.Generic{
	&packet.Publish{ID: 1, Message: packet.Message{Topic: "p1", QOS: 1}},
	&packet.Pubrel{ID: 1},
	&packet.Publish{ID: 2, Message: packet.Message{Topic: "p2", QOS: 2}},
	&packet.Subscribe{ID: 0},
	&packet.Pingreq{},
	&packet.Connect{},
	&packet.Suback{ID: 2},
	&packet.Unsuback{ID: 65535},
}

func poolIndex(p packet.Generic) int {
	for i, q := range pool {
		if q == p {
			return i
		}
	}
	if p == nil {
		return -1
	}
	return -2
}

func idOf(i int) (packet.ID, bool) {
	switch v := pool[i].(type) {
	case *packet.Publish:
		return v.ID, true
	case *packet.Pubrel:
		return v.ID, true
	case *packet.Subscribe:
		return v.ID, true
	case *packet.Suback:
		return v.ID, true
	case *packet.Unsuback:
		return v.ID, true
	}
	return 0, false
}

type op struct {
	Kind string // save lookup delete all reset
	Dir  int
	Pkt  int
	ID   packet.ID
}

func (o op) String() string {
	switch o.Kind {
	case "save":
		return fmt.Sprintf("Save(d%d,#%d)", o.Dir, o.Pkt)
	case "lookup", "delete":
		return fmt.Sprintf("%s(d%d,%d)", o.Kind, o.Dir, o.ID)
	}
	return fmt.Sprintf("%s(d%d)", o.Kind, o.Dir)
}

type model [2]map[packet.ID]int

func newModel() model { return model{map[packet.ID]int{}, map[packet.ID]int{}} }

func (m model) apply(o op) string {
	switch o.Kind {
	case "save":
		if id, ok := idOf(o.Pkt); ok {
			m[o.Dir][id] = o.Pkt
		}
		return ""
	case "lookup":
		if v, ok := m[o.Dir][o.ID]; ok {
			return fmt.Sprint(v)
		}
		return "-1"
	case "delete":
		delete(m[o.Dir], o.ID)
		return ""
	case "all":
		var xs []int
		for _, v := range m[o.Dir] {
			xs = append(xs, v)
		}
		sort.Ints(xs)
		return fmt.Sprint(xs)
	case "dreset":
		for k := range m[o.Dir] {
			delete(m[o.Dir], k)
		}
		return ""
	case "reset":
		for d := 0; d < 2; d++ {
			for k := range m[d] {
				delete(m[d], k)
			}
		}
		return ""
	}
	panic("op")
}

func applyReal(s *session.MemorySession, o op) string {
	dir := session.Direction(o.Dir)
	switch o.Kind {
	case "save":
		_ = s.SavePacket(dir, pool[o.Pkt])
		return ""
	case "lookup":
		p, _ := s.LookupPacket(dir, o.ID)
		return fmt.Sprint(poolIndex(p))
	case "delete":
		_ = s.DeletePacket(dir, o.ID)
		return ""
	case "all":
		ps, _ := s.AllPackets(dir)
		var xs []int
		for _, p := range ps {
			xs = append(xs, poolIndex(p))
		}
		sort.Ints(xs)
		return fmt.Sprint(xs)
	case "dreset":
		// reset of one direction's PacketStore (exported field of MemorySession)
		if o.Dir == 0 {
			s.Incoming.Reset()
		} else {
			s.Outgoing.Reset()
		}
		return ""
	case "reset":
		_ = s.Reset()
		return ""
	}
	panic("op")
}

func alphabet(npk int, ids []packet.ID) []op {
	var out []op
	for d := 0; d < 2; d++ {
		for p := 0; p < npk; p++ {
			out = append(out, op{Kind: "save", Dir: d, Pkt: p})
		}
		for _, id := range ids {
			out = append(out, op{Kind: "lookup", Dir: d, ID: id}, op{Kind: "delete", Dir: d, ID: id})
		}
		out = append(out, op{Kind: "all", Dir: d})
	}
	return append(out, op{Kind: "reset"})
}

func fullState(s *session.MemorySession, ids []packet.ID) string {
	var sb strings.Builder
	for d := 0; d < 2; d++ {
		for _, id := range ids {
			sb.WriteString(applyReal(s, op{Kind: "lookup", Dir: d, ID: id}) + ",")
		}
		sb.WriteString(applyReal(s, op{Kind: "all", Dir: d}) + ";")
	}
	return sb.String()
}

func fullModel(m model, ids []packet.ID) string {
	var sb strings.Builder
	for d := 0; d < 2; d++ {
		for _, id := range ids {
			sb.WriteString(m.apply(op{Kind: "lookup", Dir: d, ID: id}) + ",")
		}
		sb.WriteString(m.apply(op{Kind: "all", Dir: d}) + ";")
	}
	return sb.String()
}

func runSeq(r *h.Run, seq []op, ids []packet.ID, label string) {
	s := session.NewMemorySession()
	m := newModel()
	overwrite := false
	for i, o := range seq {
		if o.Kind == "save" {
			if id, ok := idOf(o.Pkt); ok {
				if _, ex := m[o.Dir][id]; ex {
					overwrite = true
				}
			}
		}
		if o.Kind == "delete" {
			if _, ex := m[o.Dir][o.ID]; ex {
				overwrite = true
			}
		}
		want := m.apply(o)
		got := applyReal(s, o)
		fs, fm := fullState(s, ids), fullModel(m, ids)
		if got != want || fs != fm {
			r.Violation("store/"+o.Kind, fmt.Sprintf("%s: after %v step %d %v returned %q (model %q); store state %s, model %s", label, seq[:i+1], i, o, got, want, fs, fm),
				map[string]interface{}{"sequence": fmt.Sprint(seq), "step": i, "got": got, "want": want, "state": fs, "model": fm})
			return
		}
	}
	if overwrite {
		r.NonTrivial("store:" + fmt.Sprint(seq))
	}
}

func TestCheck(t *testing.T) {
	r := h.New("C18", "exploration")
	r.Rule("counter: all 65536 start states (one-step successor, never zero, 3 further draws), full 65535-draw distinctness walks from 256 (quick) / all 65536 (thorough) start states, Reset after walks, 2-16 goroutines drawing across the wrap-around, porcupine on short concurrent draw histories; store: all op sequences over {Save x 5 packets, Lookup/Delete x ids{0,1,2}, All} x 2 directions + Reset up to length 3 (quick) / 4 (thorough) with full-state comparison after each step, random long sequences, concurrent histories checked by porcupine (partitioned by direction,id; short unpartitioned ones with All/Reset). Non-trivial/distinct = counter walks crossing the wrap (by start state), store sequences that overwrite or delete an existing id (by sequence), concurrent histories with >=2 overlapping mutating ops (by history hash)")
	r.Assume("porcupine v1.3.0 decides linearizability of the recorded histories; logical clock = one atomic counter read before the call and after the return")
	r.Exhaustive()

	// ------------------------------------------------ counter, sequential
	var bad int64
	for s := 0; s < 65536; s++ {
		c := session.NewIDCounterWithNext(packet.ID(s))
		want := uint16(s)
		if s == 0 {
			want = 1
		}
		for k := 0; k < 4; k++ {
			got := uint16(c.NextID())
			if got != want || got == 0 {
				if atomic.AddInt64(&bad, 1) < 5 {
					r.Violation("counter/successor", fmt.Sprintf("counter started at %d: draw %d returned %d, expected %d", s, k, got, want), map[string]interface{}{"start": s, "draw": k, "got": got, "want": want})
				}
				break
			}
			want = succ(want)
		}
		r.Eval()
	}
	r.Count("counter_states_one_step", 65536)

	var starts []int
	if r.Quick() {
		starts = []int{0, 1, 2, 65534, 65535, 32767, 32768}
		rng := r.Rand("c18-starts")
		for len(starts) < 256 {
			starts = append(starts, rng.Intn(65536))
		}
	} else {
		for s := 0; s < 65536; s++ {
			starts = append(starts, s)
		}
	}
	h.Parallel(len(starts), 16, func(i int) {
		s := starts[i]
		c := session.NewIDCounterWithNext(packet.ID(s))
		var seen [65536]bool
		for k := 0; k < 65535; k++ {
			id := c.NextID()
			if id == 0 || seen[id] {
				r.Violation("counter/repeat", fmt.Sprintf("counter started at %d: draw %d returned %d (zero or already handed out within 65535 allocations)", s, k, id), map[string]interface{}{"start": s, "draw": k, "id": id})
				return
			}
			seen[id] = true
		}
		c.Reset()
		if id := c.NextID(); id != 1 {
			r.Violation("counter/reset", fmt.Sprintf("after Reset the counter returned %d", id), map[string]interface{}{"start": s})
		}
		if s != 1 {
			r.NonTrivial(fmt.Sprintf("walk:%d", s))
		}
		r.Eval()
	})
	r.Count("distinctness_walks", int64(len(starts)))
	// MemorySession delegates
	{
		ms := session.NewMemorySession()
		for k := 1; k <= 70000; k++ {
			id := ms.NextID()
			want := uint16((k-1)%65535 + 1)
			if uint16(id) != want {
				r.Violation("counter/session", fmt.Sprintf("MemorySession.NextID draw %d returned %d, expected %d", k, id, want), nil)
				break
			}
		}
		_ = ms.Reset()
		if id := ms.NextID(); id != 1 {
			r.Violation("counter/session-reset", fmt.Sprintf("MemorySession.Reset then NextID returned %d", id), nil)
		}
	}

	// ------------------------------------------------ counter, concurrent
	rounds := r.Pick(8000, 100000)
	var cdup int64
	h.Parallel(rounds, 4, func(i int) {
		rng := r.Rand(fmt.Sprintf("c18-conc-%d", i))
		g := 2 + rng.Intn(15)
		per := 2 + rng.Intn(12)
		// start so that the wrap-around falls inside the concurrent window
		start := 65536 - 1 - rng.Intn(g*per)
		if i%7 == 0 {
			start = rng.Intn(65536)
		}
		c := session.NewIDCounterWithNext(packet.ID(start))
		res := make([][]packet.ID, g)
		var wg sync.WaitGroup
		gate := make(chan struct{})
		for j := 0; j < g; j++ {
			wg.Add(1)
			go func(j int) {
				defer wg.Done()
				<-gate
				for k := 0; k < per; k++ {
					res[j] = append(res[j], c.NextID())
				}
			}(j)
		}
		close(gate)
		wg.Wait()
		seen := map[packet.ID]int{}
		for j := range res {
			for _, id := range res[j] {
				seen[id]++
				if id == 0 || seen[id] > 1 {
					if atomic.AddInt64(&cdup, 1) <= 3 {
						r.Violation("counter/concurrent-repeat", fmt.Sprintf("%d goroutines x %d draws from a counter started at %d: id %d handed out %d times", g, per, start, id, seen[id]),
							map[string]interface{}{"goroutines": g, "draws_each": per, "start": start, "results": fmt.Sprint(res)})
					} else {
						r.Violation("counter/concurrent-repeat", "", nil)
					}
					return
				}
			}
		}
		// the set must be exactly the g*per successors of start
		want := uint16(start)
		if start == 0 {
			want = 1
		}
		for k := 0; k < g*per; k++ {
			if seen[packet.ID(want)] != 1 {
				r.Violation("counter/concurrent-gap", fmt.Sprintf("%d goroutines x %d draws from %d: id %d was skipped", g, per, start, want), map[string]interface{}{"results": fmt.Sprint(res)})
				return
			}
			want = succ(want)
		}
		r.NonTrivial(fmt.Sprintf("conc:%d/%d/%d", g, per, start))
		r.Eval()
	})
	r.Count("concurrent_counter_rounds", int64(rounds))

	// porcupine on short draw histories around the wrap
	cm := porcupine.Model{
		Init: func() interface{} { return -1 }, // unknown until set by "init" input
		Step: func(st, in, out interface{}) (bool, interface{}) {
			s := st.(int)
			if v, ok := in.(int); ok { // init marker carrying the start value
				return true, v
			}
			want := uint16(s)
			if s == 0 {
				want = 1
			}
			if out.(uint16) != want {
				return false, st
			}
			return true, int(want+1) % 65536
		},
	}
	linRounds := r.Pick(1500, 30000)
	var unknown int64
	h.Parallel(linRounds, 4, func(i int) {
		rng := r.Rand(fmt.Sprintf("c18-lin-%d", i))
		start := 65536 - 1 - rng.Intn(8)
		c := session.NewIDCounterWithNext(packet.ID(start))
		rec := &lin.Recorder{}
		rec.Do(0, start, func() interface{} { return nil })
		var wg sync.WaitGroup
		g := 2 + rng.Intn(4)
		for j := 0; j < g; j++ {
			wg.Add(1)
			go func(j int) {
				defer wg.Done()
				for k := 0; k < 3; k++ {
					rec.Do(j+1, "next", func() interface{} { return uint16(c.NextID()) })
				}
			}(j)
		}
		wg.Wait()
		switch lin.Check(cm, rec.Ops(), 10*time.Second) {
		case "illegal":
			r.Violation("counter/not-linearizable", fmt.Sprintf("draw history from start %d has no linearization: %v", start, rec.Ops()), map[string]interface{}{"start": start, "history": fmt.Sprint(rec.Ops())})
		case "unknown":
			atomic.AddInt64(&unknown, 1)
		}
		r.Eval()
	})
	r.Count("porcupine_counter_histories", int64(linRounds))

	// ------------------------------------------------ store, sequential
	ids := []packet.ID{0, 1, 2}
	alpha := alphabet(5, ids)
	maxLen := r.Pick(3, 4)
	var seqCount int64
	// first op is split across workers
	h.Parallel(len(alpha), 16, func(a int) {
		seq := []op{alpha[a]}
		var rec func()
		rec = func() {
			runSeq(r, seq, ids, "exhaustive")
			atomic.AddInt64(&seqCount, 1)
			if len(seq) == maxLen {
				return
			}
			for _, o := range alpha {
				seq = append(seq, o)
				rec()
				seq = seq[:len(seq)-1]
			}
		}
		rec()
	})
	r.EvalN(int(seqCount))
	r.Count("store_sequences_exhaustive", seqCount)
	r.Sample(map[string]interface{}{"store_alphabet": fmt.Sprint(alpha), "max_len": maxLen})
	// random long sequences over the whole pool and more ids
	ids2 := []packet.ID{0, 1, 2, 3, 65535}
	alpha2 := alphabet(len(pool), ids2)
	nr := r.Pick(400, 8000)
	h.Parallel(nr, 16, func(i int) {
		rng := r.Rand(fmt.Sprintf("c18-store-%d", i))
		n := 10 + rng.Intn(300)
		seq := make([]op, n)
		for k := range seq {
			seq[k] = alpha2[rng.Intn(len(alpha2))]
			if seq[k].Kind == "reset" && rng.Intn(4) != 0 {
				seq[k] = alpha2[rng.Intn(len(alpha2)-1)]
			}
		}
		runSeq(r, seq, ids2, "random")
		r.Eval()
		if i == 0 {
			r.Sample(map[string]interface{}{"random_store_sequence": fmt.Sprint(seq[:12]) + "…"})
		}
	})
	// large populations: hundreds of live ids per direction, fresh packet values
	// (so "the last packet saved under that id" is identifiable), both directions
	// of one MemorySession interleaved; listing compared as a set after every step
	nb := r.Pick(60, 1500)
	h.Parallel(nb, 16, func(i int) {
		rng := r.Rand(fmt.Sprintf("c18-bulk-%d", i))
		universe := []int{20, 40, 100, 400}[rng.Intn(4)]
		steps := 200 + rng.Intn(1500)
		s := session.NewMemorySession()
		var mdl [2]map[packet.ID]packet.Generic
		mdl[0], mdl[1] = map[packet.ID]packet.Generic{}, map[packet.ID]packet.Generic{}
		maxLive := 0
		// a phase bias lets populations grow well past a few dozen live ids
		for k := 0; k < steps; k++ {
			d := rng.Intn(2)
			dir := session.Direction(d)
			id := packet.ID(1 + rng.Intn(universe))
			if rng.Intn(97) == 0 {
				id = 65535
			}
			var what string
			switch x := rng.Intn(10); {
			case x < 6:
				var pk packet.Generic
				if rng.Intn(3) == 0 {
					pk = &packet.Pubrel{ID: id}
				} else {
					pk = &packet.Publish{ID: id, Message: packet.Message{Topic: "t", QOS: 1, Payload: []byte(fmt.Sprintf("%d-%d", i, k))}}
				}
				_ = s.SavePacket(dir, pk)
				mdl[d][id] = pk
				what = fmt.Sprintf("Save(d%d,%d)", d, id)
			case x < 8:
				_ = s.DeletePacket(dir, id)
				delete(mdl[d], id)
				what = fmt.Sprintf("Delete(d%d,%d)", d, id)
			case x < 9:
				got, _ := s.LookupPacket(dir, id)
				if got != mdl[d][id] && !(got == nil && mdl[d][id] == nil) {
					r.Violation("store/bulk-lookup", fmt.Sprintf("bulk history #%d step %d: Lookup(d%d,%d) returned %v, the map model holds %v (%d/%d live ids)", i, k, d, id, got, mdl[d][id], len(mdl[0]), len(mdl[1])), nil)
					return
				}
				what = "Lookup"
			default:
				if rng.Intn(40) == 0 {
					if d == 0 {
						s.Incoming.Reset()
					} else {
						s.Outgoing.Reset()
					}
					mdl[d] = map[packet.ID]packet.Generic{}
					what = fmt.Sprintf("Reset(d%d)", d)
				}
			}
			if len(mdl[0])+len(mdl[1]) > maxLive {
				maxLive = len(mdl[0]) + len(mdl[1])
			}
			for dd := 0; dd < 2; dd++ {
				all, _ := s.AllPackets(session.Direction(dd))
				bad := len(all) != len(mdl[dd])
				if !bad {
					for _, pk := range all {
						if pk == nil {
							bad = true
							break
						}
						pid, ok := packet.GetID(pk)
						if !ok || mdl[dd][pid] != pk {
							bad = true
							break
						}
					}
				}
				if bad {
					r.Violation("store/bulk-list", fmt.Sprintf("bulk history #%d (id universe %d) step %d %s: AllPackets(d%d) lists %d packets that are not exactly the %d packets last saved under the live ids of that direction (other direction holds %d)", i, universe, k, what, dd, len(all), len(mdl[dd]), len(mdl[1-dd])), map[string]interface{}{"history": i, "step": k, "op": what})
					return
				}
			}
		}
		r.Eval()
		if maxLive > 32 {
			r.NonTrivial(fmt.Sprintf("bulk:%d", i))
		}
	})
	r.Count("store_bulk_histories", int64(nb))
	// NewPacketStoreWithPackets = saves in order
	{
		st := session.NewPacketStoreWithPackets([]packet.Generic{pool[0], pool[2], pool[1], pool[4]})
		if poolIndex(st.Lookup(1)) != 1 || poolIndex(st.Lookup(2)) != 2 || len(st.All()) != 2 {
			r.Violation("store/with-packets", "NewPacketStoreWithPackets does not behave like successive saves", nil)
		}
	}

	// ------------------------------------------------ store, concurrent
	perKey := porcupine.Model{
		Partition: func(hist []porcupine.Operation) [][]porcupine.Operation {
			m := map[string][]porcupine.Operation{}
			for _, o := range hist {
				in := o.Input.(op)
				id := in.ID
				if in.Kind == "save" {
					id, _ = idOf(in.Pkt)
				}
				k := fmt.Sprintf("%d/%d", in.Dir, id)
				m[k] = append(m[k], o)
			}
			var out [][]porcupine.Operation
			for _, v := range m {
				out = append(out, v)
			}
			return out
		},
		Init: func() interface{} { return -1 },
		Step: func(st, in, out interface{}) (bool, interface{}) {
			o := in.(op)
			switch o.Kind {
			case "save":
				return true, o.Pkt
			case "delete":
				return true, -1
			case "lookup":
				return out.(string) == fmt.Sprint(st.(int)), st
			}
			return false, st
		},
	}
	whole := porcupine.Model{
		Partition: func(hist []porcupine.Operation) [][]porcupine.Operation {
			var out [2][]porcupine.Operation
			for _, o := range hist {
				d := o.Input.(op).Dir
				out[d] = append(out[d], o)
			}
			return out[:]
		},
		Init: func() interface{} { return "" },
		Step: func(st, in, out interface{}) (bool, interface{}) {
			m := decode(st.(string))
			o := in.(op)
			want := m.apply(o)
			if (o.Kind == "lookup" || o.Kind == "all") && out.(string) != want {
				return false, st
			}
			return true, encode(m)
		},
	}
	hist := r.Pick(4000, 60000)
	var illegal int64
	h.Parallel(hist, 4, func(i int) {
		rng := r.Rand(fmt.Sprintf("c18-shist-%d", i))
		s := session.NewMemorySession()
		rec := &lin.Recorder{}
		partitioned := i%2 == 0
		g := 2 + rng.Intn(7)
		per := 3 + rng.Intn(4)
		if partitioned {
			per = 6 + rng.Intn(20)
		}
		var alpha []op
		for _, o := range alphabet(5, []packet.ID{1, 2}) {
			if o.Kind == "reset" {
				// MemorySession.Reset spans both stores and the counter and is not
				// claimed to be atomic across directions; concurrently only the
				// per-direction store reset is exercised
				if !partitioned {
					alpha = append(alpha, op{Kind: "dreset", Dir: 0}, op{Kind: "dreset", Dir: 1})
				}
				continue
			}
			if partitioned && (o.Kind == "all" || (o.Kind == "save" && o.Pkt >= 3)) {
				continue
			}
			alpha = append(alpha, o)
		}
		plans := make([][]op, g)
		for j := range plans {
			for k := 0; k < per; k++ {
				plans[j] = append(plans[j], alpha[rng.Intn(len(alpha))])
			}
		}
		var wg sync.WaitGroup
		gate := make(chan struct{})
		for j := 0; j < g; j++ {
			wg.Add(1)
			go func(j int) {
				defer wg.Done()
				<-gate
				for _, o := range plans[j] {
					o := o
					rec.Do(j, o, func() interface{} { return applyReal(s, o) })
				}
			}(j)
		}
		close(gate)
		wg.Wait()
		ops := rec.Ops()
		m := whole
		if partitioned {
			m = perKey
		}
		switch lin.Check(m, ops, 10*time.Second) {
		case "illegal":
			if atomic.AddInt64(&illegal, 1) <= 3 {
				r.Violation("store/not-linearizable", fmt.Sprintf("concurrent store history (%d goroutines) has no linearization", g), map[string]interface{}{"history": fmt.Sprint(ops)})
			} else {
				r.Violation("store/not-linearizable", "", nil)
			}
		case "unknown":
			atomic.AddInt64(&unknown, 1)
		default:
			if overlapping(ops) {
				r.NonTrivial("hist:" + fmt.Sprint(ops))
			}
		}
		r.Eval()
	})
	r.Count("porcupine_store_histories", int64(hist))
	r.Count("porcupine_unknown", unknown)
	if unknown > 0 {
		r.Inconclusive(fmt.Sprintf("%d porcupine checks timed out", unknown))
	}
	h.Exit(r.Finish(300))
}

func encode(m model) string {
	var parts []string
	for d := 0; d < 2; d++ {
		for id, p := range m[d] {
			parts = append(parts, fmt.Sprintf("%d/%d=%d", d, id, p))
		}
	}
	sort.Strings(parts)
	return strings.Join(parts, ",")
}

func decode(s string) model {
	m := newModel()
	if s == "" {
		return m
	}
	for _, part := range strings.Split(s, ",") {
		var d, id, p int
		fmt.Sscanf(part, "%d/%d=%d", &d, &id, &p)
		m[d][packet.ID(id)] = p
	}
	return m
}

// overlapping: at least two mutating operations overlap in time
func overlapping(ops []porcupine.Operation) bool {
	for i := range ops {
		a := ops[i].Input.(op)
		if a.Kind == "lookup" || a.Kind == "all" {
			continue
		}
		for j := i + 1; j < len(ops); j++ {
			b := ops[j].Input.(op)
			if b.Kind == "lookup" || b.Kind == "all" {
				continue
			}
			if ops[i].Call <= ops[j].Return && ops[j].Call <= ops[i].Return {
				return true
			}
		}
	}
	return false
}
