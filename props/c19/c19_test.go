// C19 — concurrent sends stay whole, close loses nothing, no hang after close or
// error. Monitors: reassembly of (sender, seq, checksum) payloads at the peer,
// wire-byte parser, instrumented carrier (call log + fault injection), event-log
// order for "returned before Close was called", stuck watchdogs, race detector.
package c19

import (
	"errors"
	"fmt"
	"hash/crc32"
	"io"
	"net"
	"strings"
	"sync"
	"sync/atomic"
	"testing"
	"time"

	"github.com/256dpi/gomqtt/packet"
	"github.com/256dpi/gomqtt/transport"
	"github.com/gorilla/websocket"

	"verif/internal/h"
	"verif/internal/ref"
	"verif/internal/stuck"
	"verif/internal/wire"
)

// ---------------------------------------------------------------- carrier

var errInjected = errors.New("injected carrier failure")

type carrier struct {
	inner       *wire.End
	mu          sync.Mutex
	calls       map[string]int
	fault       map[string]int // op -> fail at this call number
	log         []string
	clock       *int64
	closeCalled int64 // logical time of the first Close call (0 = never)
}

func newCarrier(e *wire.End, clock *int64) *carrier {
	return &carrier{inner: e, calls: map[string]int{}, fault: map[string]int{}, clock: clock}
}

func (c *carrier) hit(op string) bool {
	c.mu.Lock()
	defer c.mu.Unlock()
	c.calls[op]++
	c.log = append(c.log, fmt.Sprintf("%s#%d", op, c.calls[op]))
	return c.fault[op] != 0 && c.fault[op] == c.calls[op]
}

func (c *carrier) count(op string) int {
	c.mu.Lock()
	defer c.mu.Unlock()
	return c.calls[op]
}

func (c *carrier) Read(b []byte) (int, error) {
	if c.hit("read") {
		return 0, errInjected
	}
	return c.inner.Read(b)
}

func (c *carrier) Write(b []byte) (int, error) {
	if c.hit("write") {
		return 0, errInjected
	}
	return c.inner.Write(b)
}

func (c *carrier) Close() error {
	atomic.CompareAndSwapInt64(&c.closeCalled, 0, atomic.AddInt64(c.clock, 1))
	inject := c.hit("close")
	err := c.inner.Close()
	if inject {
		return errInjected
	}
	return err
}

func (c *carrier) SetReadDeadline(t time.Time) error {
	if c.hit("deadline") {
		return errInjected
	}
	return c.inner.SetReadDeadline(t)
}

// ---------------------------------------------------------------- payloads

func mkPacket(sender, seq, size int) *packet.Publish {
	body := fmt.Sprintf("s%02d|%06d|", sender, seq)
	pad := size - len(body) - 8
	if pad < 0 {
		pad = 0
	}
	body += strings.Repeat(string(rune('a'+sender%26)), pad)
	sum := crc32.ChecksumIEEE([]byte(body))
	p := &packet.Publish{Message: packet.Message{Topic: fmt.Sprintf("c19/%d", sender), Payload: []byte(fmt.Sprintf("%s%08x", body, sum))}}
	if seq%3 == 1 {
		p.Message.QOS = 1
		p.ID = packet.ID(seq%65535 + 1)
	}
	return p
}

func parsePacket(g packet.Generic) (sender, seq int, ok bool) {
	p, is := g.(*packet.Publish)
	if !is || len(p.Message.Payload) < 20 {
		return 0, 0, false
	}
	pl := string(p.Message.Payload)
	body, sumHex := pl[:len(pl)-8], pl[len(pl)-8:]
	var sum uint32
	if _, err := fmt.Sscanf(sumHex, "%08x", &sum); err != nil || crc32.ChecksumIEEE([]byte(body)) != sum {
		return 0, 0, false
	}
	if _, err := fmt.Sscanf(body, "s%02d|%06d|", &sender, &seq); err != nil {
		return 0, 0, false
	}
	if p.Message.Topic != fmt.Sprintf("c19/%d", sender) {
		return 0, 0, false
	}
	return sender, seq, true
}

// parseWire splits recorded wire bytes into packets with the reference decoder.
func parseWire(b []byte) (n int, err error) {
	for len(b) > 0 {
		hd, e := ref.ParseHeader(b)
		if e != nil {
			return n, fmt.Errorf("bytes on the wire are not whole packets: %v at packet %d", e, n)
		}
		total := hd.HL + hd.RL
		if total > len(b) {
			return n, fmt.Errorf("a partial packet (%d of %d bytes) is on the wire after %d packets", len(b), total, n)
		}
		g, e := ref.Decode(b[:total])
		if e != nil {
			return n, fmt.Errorf("packet %d on the wire is malformed: %v", n, e)
		}
		if _, _, ok := parsePacket(g); !ok {
			return n, fmt.Errorf("packet %d on the wire is not one of the sent packets (%s)", n, ref.Canon(g))
		}
		b = b[total:]
		n++
	}
	return n, nil
}

type sendRec struct {
	sender, seq int
	retAt       int64 // logical time at which Send returned nil
	err         error
}

// ---------------------------------------------------------------- A+B: senders and close

type sendCase struct {
	Senders  int
	PerS     int
	Delay    time.Duration
	Sizes    []int
	CloseAt  int    // close after this many sends returned (0 = after all)
	Kind     string // wire tcp ws
	AsyncPat int64
}

func (s sendCase) String() string {
	return fmt.Sprintf("%s senders=%d each=%d delay=%v close-after=%d async-pattern=%x", s.Kind, s.Senders, s.PerS, s.Delay, s.CloseAt, s.AsyncPat)
}

type pair struct {
	a, b   transport.Conn
	aEnd   *wire.End
	car    *carrier
	clock  *int64
	closer func()
}

func mkPair(kind string, clock *int64) (*pair, error) {
	switch kind {
	case "wire":
		ae, be := wire.Pair()
		car := newCarrier(ae, clock)
		return &pair{a: &baseConn{transport.NewBaseConn(car)}, b: wire.NewConn(be), aEnd: ae, car: car, clock: clock, closer: func() {}}, nil
	case "tcp", "ws":
		srv, err := transport.Launch(kind + "://127.0.0.1:0")
		if err != nil {
			return nil, err
		}
		var c transport.Conn
		if kind == "tcp" {
			c, err = transport.Dial("tcp://" + srv.Addr().String())
		} else {
			c, err = transport.Dial("ws://" + srv.Addr().String() + "/")
		}
		if err != nil {
			srv.Close()
			return nil, err
		}
		s, err := srv.Accept()
		if err != nil {
			srv.Close()
			return nil, err
		}
		return &pair{a: c, b: s, clock: clock, closer: func() { srv.Close() }}, nil
	}
	return nil, errors.New("kind")
}

type baseConn struct{ *transport.BaseConn }

func (baseConn) LocalAddr() net.Addr  { return nil }
func (baseConn) RemoteAddr() net.Addr { return nil }

func runSend(r *h.Run, idx int, sc sendCase) {
	if r.TooMany() {
		return
	}
	r.Journal("C19 send #%d %v", idx, sc)
	var clock int64
	p, err := mkPair(sc.Kind, &clock)
	if err != nil {
		r.Inconclusive(fmt.Sprintf("%v: cannot create a %s pair: %v", sc, sc.Kind, err))
		return
	}
	defer p.closer()
	fail := func(key, msg string) {
		w := map[string]interface{}{"case": sc.String(), "detail": msg}
		if p.car != nil {
			p.car.mu.Lock()
			w["carrier_calls"] = append([]string(nil), p.car.log[max(0, len(p.car.log)-60):]...)
			p.car.mu.Unlock()
		}
		r.Violation(sc.Kind+"/"+key, fmt.Sprintf("%v: %s", sc, msg), w)
	}
	p.a.SetMaxWriteDelay(sc.Delay)
	if idx%2 == 1 {
		// a read limit just above the largest packet: it applies per packet, so
		// it changes nothing however the packets are coalesced on the wire
		limit := 0
		for _, sz := range sc.Sizes {
			if b, err := ref.Encode(mkPacket(15, 1, sz)); err == nil && len(b) > limit {
				limit = len(b)
			}
		}
		p.b.SetReadLimit(int64(limit + 16))
	}
	// receiver at the peer: drains until EOF
	type got struct{ sender, seq int }
	var recvd []got
	var bad string
	recvDone := make(chan struct{})
	go func() {
		defer close(recvDone)
		p.b.SetReadTimeout(30 * time.Second)
		for {
			g, err := p.b.Receive()
			if err != nil {
				return
			}
			s, q, ok := parsePacket(g)
			if !ok {
				bad = ref.Canon(g)
				return
			}
			recvd = append(recvd, got{s, q})
		}
	}()
	// a pending Receive on the sending side must be unblocked by Close
	localRecv := make(chan error, 1)
	go func() {
		_, err := p.a.Receive()
		localRecv <- err
	}()
	var mu sync.Mutex
	var recs []sendRec
	var returned int64
	closeNow := make(chan struct{})
	var closeOnce sync.Once
	var wg sync.WaitGroup
	for s := 0; s < sc.Senders; s++ {
		wg.Add(1)
		go func(s int) {
			defer wg.Done()
			for q := 0; q < sc.PerS; q++ {
				pk := mkPacket(s, q, sc.Sizes[(s+q)%len(sc.Sizes)])
				async := (sc.AsyncPat>>uint((s*7+q)%60))&1 == 1
				err := p.a.Send(pk, async)
				rec := sendRec{sender: s, seq: q, err: err}
				if err == nil {
					rec.retAt = atomic.AddInt64(&clock, 1)
				}
				mu.Lock()
				recs = append(recs, rec)
				mu.Unlock()
				if n := atomic.AddInt64(&returned, 1); sc.CloseAt > 0 && int(n) == sc.CloseAt {
					closeOnce.Do(func() { close(closeNow) })
				}
				if err != nil {
					return
				}
			}
		}(s)
	}
	sendersDone := make(chan struct{})
	go func() { wg.Wait(); close(sendersDone) }()
	if sc.CloseAt > 0 {
		select {
		case <-closeNow:
		case <-sendersDone:
		}
	} else {
		<-sendersDone
	}
	closeCalledAt := atomic.AddInt64(&clock, 1)
	closeRet := make(chan error, 1)
	go func() { closeRet <- p.a.Close() }()
	watch := func(ch <-chan struct{}, what string) bool {
		select {
		case <-ch:
			return true
		case <-time.After(20 * time.Second):
			confirmed, stacks := stuck.Confirm(time.Second, func() int { return int(atomic.LoadInt64(&clock)) }, "github.com/256dpi/gomqtt/transport")
			if confirmed {
				fail("hang", what+" did not return; parked: "+stacks[0])
			} else {
				r.Inconclusive(fmt.Sprintf("%v: %s slow, no confirmed stuck state", sc, what))
			}
			return false
		}
	}
	cr := make(chan struct{})
	go func() { <-closeRet; close(cr) }()
	if !watch(cr, "Close") || !watch(sendersDone, "a Send racing with Close") {
		return
	}
	lr := make(chan struct{})
	go func() { <-localRecv; close(lr) }()
	if !watch(lr, "a Receive pending while Close was called") {
		return
	}
	if !watch(recvDone, "the peer's Receive after the connection was closed") {
		return
	}
	if bad != "" {
		fail("corrupt-packet", "the peer received a packet that is not one of the sent ones: "+bad)
		return
	}
	// every Send that returned nil before Close was called must have arrived; per sender in order
	arrived := map[got]int{}
	lastSeq := map[int]int{}
	for _, g := range recvd {
		arrived[g]++
		if l, ok := lastSeq[g.sender]; ok && g.seq <= l {
			fail("sender-order", fmt.Sprintf("packets of sender %d arrived out of order: #%d after #%d", g.sender, g.seq, l))
			return
		}
		lastSeq[g.sender] = g.seq
	}
	before := 0
	for _, rc := range recs {
		if rc.err == nil && rc.retAt < closeCalledAt {
			before++
			if arrived[got{rc.sender, rc.seq}] == 0 {
				fail("accepted-send-lost", fmt.Sprintf("Send of packet (sender %d, #%d) returned nil before Close was called and never reached the peer (%d of %d accepted sends arrived)", rc.sender, rc.seq, len(recvd), before))
				return
			}
		}
	}
	for g, n := range arrived {
		if n > 1 {
			fail("duplicate-packet", fmt.Sprintf("packet (sender %d, #%d) arrived %d times", g.sender, g.seq, n))
			return
		}
	}
	if p.aEnd != nil {
		if _, err := parseWire(p.aEnd.Written()); err != nil {
			fail("wire-bytes", err.Error())
			return
		}
	}
	// after Close: no call blocks or panics, flushed sends fail at once, buffered sends after the delay
	afterClose(r, sc, p, fail)
	if sc.Senders >= 2 || sc.CloseAt > 0 {
		r.NonTrivial(sc.String())
	}
	r.Distinct("arrival_interleavings", fmt.Sprint(recvd))
	r.Eval()
}

func max(a, b int) int {
	if a > b {
		return a
	}
	return b
}

func guard(fail func(string, string), what string, f func()) bool {
	done := make(chan interface{}, 1)
	go func() {
		defer func() { done <- recover() }()
		f()
	}()
	select {
	case e := <-done:
		if e != nil {
			fail("panic", fmt.Sprintf("%s panicked: %v", what, e))
			return false
		}
		return true
	case <-time.After(15 * time.Second):
		fail("hang", what+" did not return within 15 s")
		return false
	}
}

func afterClose(r *h.Run, sc sendCase, p *pair, fail func(string, string)) {
	pk := mkPacket(99, 1, 40)
	var err error
	if !guard(fail, "a flushed Send after Close", func() { err = p.a.Send(pk, false) }) {
		return
	}
	if err == nil {
		fail("send-after-close-succeeds", "a flushed Send after Close returned nil")
	}
	// buffered sends must start failing once the flush delay has elapsed
	deadline := time.Now().Add(sc.Delay + 3*time.Second)
	failed := false
	for time.Now().Before(deadline) {
		if !guard(fail, "a buffered Send after Close", func() { err = p.a.Send(pk, true) }) {
			return
		}
		if err != nil {
			failed = true
			break
		}
		time.Sleep(time.Millisecond)
	}
	if !failed {
		fail("buffered-send-after-close-keeps-succeeding", fmt.Sprintf("buffered Sends after Close still returned nil %v after the flush delay (%v)", 3*time.Second, sc.Delay))
	}
	var g packet.Generic
	if !guard(fail, "Receive after Close", func() {
		for i := 0; i < 10000; i++ { // data that had already arrived may be returned first
			if g, err = p.a.Receive(); err != nil {
				return
			}
		}
	}) {
		return
	}
	_ = g
	if err == nil {
		fail("receive-after-close-succeeds", "Receive keeps returning packets after Close")
	}
	guard(fail, "a second Close", func() { _ = p.a.Close() })
}

// ---------------------------------------------------------------- D: carrier fault enumeration

func runFault(r *h.Run, op string, k int, delay time.Duration) (reached bool) {
	label := fmt.Sprintf("carrier %s fails at call #%d (flush delay %v)", op, k, delay)
	r.Journal("C19 %s", label)
	var clock int64
	ae, be := wire.Pair()
	car := newCarrier(ae, &clock)
	if k > 0 {
		car.fault[op] = k
	}
	a := transport.NewBaseConn(car)
	b := wire.NewConn(be)
	a.SetMaxWriteDelay(delay)
	fail := func(key, msg string) {
		car.mu.Lock()
		calls := append([]string(nil), car.log...)
		car.mu.Unlock()
		r.Violation("fault/"+key, label+": "+msg, map[string]interface{}{"case": label, "detail": msg, "carrier_calls": calls})
	}
	// peer: echo-less drain and a small stream towards a
	go func() {
		for i := 0; i < 6; i++ {
			if b.Send(mkPacket(50, i, 60), false) != nil {
				return
			}
		}
	}()
	go func() {
		for {
			if _, err := b.Receive(); err != nil {
				return
			}
		}
	}()
	var firstErr error
	sawErr := func(err error) {
		if err != nil && firstErr == nil {
			firstErr = err
		}
	}
	ok := guard(fail, "the scripted call sequence", func() {
		a.SetReadTimeout(5 * time.Second)
		for i := 0; i < 6; i++ {
			sawErr(a.Send(mkPacket(1, i, 30+i*900), i%2 == 0))
			_, err := a.Receive()
			sawErr(err)
		}
		time.Sleep(delay + 2*time.Millisecond)
		sawErr(a.Send(mkPacket(1, 7, 30), true))
		sawErr(a.Close())
	})
	if !ok {
		return true
	}
	hit := k > 0 && car.count(op) >= k
	// SetReadTimeout (deadline call #1) has no error result: an error there is not
	// reported by design, the statement only speaks about send/receive errors
	if hit && op != "close" && !(op == "deadline" && k == 1) {
		if atomic.LoadInt64(&car.closeCalled) == 0 {
			fail("carrier-not-closed", "a carrier error was injected but the connection never closed its carrier")
		}
		if firstErr == nil {
			fail("error-swallowed", "a carrier error was injected and no call reported an error")
		}
	}
	// after the error: nothing blocks or panics, everything fails
	var err error
	if guard(fail, "a flushed Send after the failure", func() { err = a.Send(mkPacket(2, 1, 30), false) }) && err == nil {
		fail("send-after-error-succeeds", "a flushed Send after the connection failed/closed returned nil")
	}
	if guard(fail, "Receive after the failure", func() {
		for i := 0; i < 100; i++ {
			if _, err = a.Receive(); err != nil {
				return
			}
		}
	}) && err == nil {
		fail("receive-after-error-succeeds", "Receive keeps succeeding after the connection failed/closed")
	}
	guard(fail, "Close after the failure", func() { _ = a.Close() })
	_ = b.Close()
	r.Eval()
	return hit
}

// ---------------------------------------------------------------- E: read timeout

func runTimeout(r *h.Run, kind string, d time.Duration) {
	label := fmt.Sprintf("%s read timeout %v with a silent peer", kind, d)
	r.Journal("C19 %s", label)
	var clock int64
	p, err := mkPair(kind, &clock)
	if err != nil {
		r.Inconclusive(label + ": " + err.Error())
		return
	}
	defer p.closer()
	fail := func(key, msg string) {
		r.Violation(kind+"/timeout/"+key, label+": "+msg, map[string]interface{}{"case": label, "detail": msg})
	}
	p.a.SetReadTimeout(d)
	var rerr error
	start := time.Now()
	if !guard(fail, "Receive with a read timeout", func() { _, rerr = p.a.Receive() }) {
		return
	}
	if rerr == nil {
		fail("no-error", "Receive returned a packet from a silent peer")
	}
	if el := time.Since(start); el < d/2 {
		fail("too-early", fmt.Sprintf("Receive gave up after %v with a read timeout of %v", el, d))
	}
	var e2 error
	if guard(fail, "a flushed Send after the read timeout", func() { e2 = p.a.Send(mkPacket(3, 1, 30), false) }) && e2 == nil {
		fail("send-after-timeout-succeeds", "a flushed Send after an expired read timeout returned nil (the connection must be closed)")
	}
	if guard(fail, "Receive after the read timeout", func() { _, e2 = p.a.Receive() }) && e2 == nil {
		fail("receive-after-timeout-succeeds", "Receive succeeded after an expired read timeout")
	}
	// the peer sees the connection end
	var perr error
	p.b.SetReadTimeout(10 * time.Second)
	if guard(fail, "the peer's Receive", func() { _, perr = p.b.Receive() }) && perr == nil {
		fail("peer-not-closed", "the peer received a packet instead of the end of the connection")
	}
	if perr != nil && !errors.Is(perr, io.EOF) && !strings.Contains(perr.Error(), "closed") && !strings.Contains(perr.Error(), "EOF") && !strings.Contains(perr.Error(), "reset") && !strings.Contains(perr.Error(), "1006") {
		r.Count("peer_end_other_error", 1)
	}
	guard(fail, "Close after the read timeout", func() { _ = p.a.Close() })
	_ = p.b.Close()
	r.Eval()
	r.NonTrivial(label)
}

// ---------------------------------------------------------------- F: receive error while a send is blocked

// runStuckSend: the peer stops reading, so a flushed Send blocks in the
// carrier's Write (bounded wire). Then the receiving side fails - the read
// timeout expires or the peer writes garbage. After that error no call may stay
// blocked: the Receive returns it, the blocked Send fails, Close returns.
func runStuckSend(r *h.Run, trigger string, nsend int, delay time.Duration, closeFirst bool) {
	label := fmt.Sprintf("send blocked on a non-reading peer (%d senders, flush delay %v), then %s", nsend, delay, trigger)
	if closeFirst {
		label = fmt.Sprintf("send blocked on a non-reading peer (%d senders, flush delay %v), Close called from another goroutine while they are blocked, then %s", nsend, delay, trigger)
	}
	r.Journal("C19 %s", label)
	var clock int64
	ae, be := wire.Pair()
	ae.SetCapacity(1024)
	car := newCarrier(ae, &clock)
	a := transport.NewBaseConn(car)
	a.SetMaxWriteDelay(delay)
	fail := func(key, msg string) {
		car.mu.Lock()
		calls := append([]string(nil), car.log...)
		car.mu.Unlock()
		if len(calls) > 60 {
			calls = calls[len(calls)-60:]
		}
		r.Violation("stuck-send/"+key, label+": "+msg, map[string]interface{}{"case": label, "detail": msg, "carrier_calls": calls})
	}
	// senders: big flushed packets until the wire is full and the Write parks
	sendDone := make(chan error, nsend)
	for sd := 0; sd < nsend; sd++ {
		go func(sd int) {
			var err error
			for i := 0; i < 64 && err == nil; i++ {
				err = a.Send(mkPacket(sd, i, 900), i%2 == 1)
			}
			sendDone <- err
		}(sd)
	}
	// wait (bounded) until the wire is full
	full := false
	for i := 0; i < 2000; i++ {
		if be.Buffered() >= 1024 {
			full = true
			break
		}
		time.Sleep(time.Millisecond)
	}
	if !full {
		r.Inconclusive(label + ": the wire never filled up")
		_ = be.Close()
		return
	}
	time.Sleep(2 * time.Millisecond) // shaping: let a sender park inside Write
	// optionally a third goroutine calls Close now: it queues behind the parked
	// Send (or parks in its own flush); the receive error below must release it too
	closeDone := make(chan struct{})
	if closeFirst {
		go func() { _ = a.Close(); close(closeDone) }()
		time.Sleep(2 * time.Millisecond) // shaping: let Close reach the send mutex
	}
	var rerr error
	switch trigger {
	case "read timeout":
		a.SetReadTimeout(15 * time.Millisecond)
	case "garbage from the peer":
		_, _ = be.Write([]byte{0x00, 0x00, 0xff, 0xff})
	case "oversized packet from the peer":
		a.SetReadLimit(64)
		big, _ := ref.Encode(mkPacket(7, 7, 400))
		_, _ = be.Write(big)
	}
	if !guard(fail, "Receive", func() { _, rerr = a.Receive() }) {
		_ = be.Close()
		return
	}
	if rerr == nil {
		fail("no-error", "Receive returned a packet")
	}
	// the blocked senders must come back with an error
	for sd := 0; sd < nsend; sd++ {
		select {
		case err := <-sendDone:
			if err == nil {
				fail("send-succeeds", "a sender finished all 64 sends without error although the peer read nothing and the wire holds 1024 bytes")
			}
		case <-time.After(15 * time.Second):
			confirmed, stacks := stuck.Confirm(500*time.Millisecond, func() int { return int(ae.WrittenLen()) }, "transport.(*BaseConn)")
			if confirmed {
				fail("send-stays-blocked", fmt.Sprintf("after the receive error (%v) a Send is still blocked; parked goroutines, e.g.:\n%s", rerr, stacks[0]))
			} else {
				r.Inconclusive(label + ": sender slow, no confirmed stuck state")
			}
			_ = be.Close()
			return
		}
	}
	if closeFirst {
		select {
		case <-closeDone:
		case <-time.After(15 * time.Second):
			confirmed, stacks := stuck.Confirm(500*time.Millisecond, func() int { return int(ae.WrittenLen()) }, "transport.(*BaseConn)")
			if confirmed {
				fail("close-stays-blocked", fmt.Sprintf("after the receive error (%v) the Close that was called while the Sends were blocked has still not returned; parked goroutines, e.g.:\n%s", rerr, stacks[0]))
			} else {
				r.Inconclusive(label + ": Close slow, no confirmed stuck state")
			}
			_ = be.Close()
			return
		}
	}
	var e2 error
	if guard(fail, "a flushed Send after the receive error", func() { e2 = a.Send(mkPacket(3, 1, 30), false) }) && e2 == nil {
		fail("send-after-error-succeeds", "a flushed Send after a receive error returned nil (the connection must be closed)")
	}
	if guard(fail, "Receive after the receive error", func() { _, e2 = a.Receive() }) && e2 == nil {
		fail("receive-after-error-succeeds", "Receive succeeded after a receive error")
	}
	guard(fail, "Close after the receive error", func() { _ = a.Close() })
	_ = be.Close()
	r.Eval()
	r.NonTrivial(label)
}

func TestCheck(t *testing.T) {
	r := h.New("C19", "fault_enumeration")
	r.Rule("A/B: 1-16 goroutines send numbered, checksummed packets (sizes around 4096) on one connection with PRNG async/sync patterns and flush delays 0-50 ms while a third goroutine calls Close after a PRNG-chosen number of sends returned (or after all); the peer drains until EOF; oracles: every packet intact, per-sender order, no duplicates, every Send that returned nil before Close was called arrived, wire bytes parse into whole sent packets, a pending Receive is unblocked, then flushed sends fail at once, buffered sends fail once the flush delay elapsed, Receive fails, a second Close returns — on the in-memory wire and again on TCP and WebSocket loopback pairs, half of the cases with a receiver read limit just above the largest packet. D: an instrumented carrier fails at every k-th Read / Write / Close / SetReadDeadline call of a scripted send/receive sequence, for flush delays 0 and 5 ms. E: read timeouts 10-30 ms with a silent peer on wire, TCP and WebSocket. F: 1-3 senders blocked in the carrier's Write on a non-reading peer (bounded wire), then a read timeout / garbage / an oversized packet fails the Receive: the blocked Sends must fail, later calls fail at once, Close returns; each case again with a Close called from a third goroutine while the Sends are blocked (that Close must return too). Everything runs under the race detector. Non-trivial = runs with >= 2 concurrent senders or a close/fault while sends are in progress; distinct by case; distinct arrival interleavings are counted separately")
	r.Assume("in parts A-E peers always drain; part F blocks a Send on a non-reading peer and then makes the receive side fail (a Close called first would wait behind the blocked Send - that is the recorded C13 mechanism and is not exercised here)")
	rng := r.Rand("c19")
	mk := func(kind string, i int) sendCase {
		sc := sendCase{Kind: kind, Senders: 1 + rng.Intn(16), PerS: 1 + rng.Intn(12), Delay: []time.Duration{0, 0, time.Millisecond, 5 * time.Millisecond, 20 * time.Millisecond, 50 * time.Millisecond}[rng.Intn(6)], AsyncPat: rng.Int63()}
		sc.Sizes = [][]int{{40}, {40, 4090, 4096, 4100}, {9000, 30}, {4096}}[rng.Intn(4)]
		switch rng.Intn(3) {
		case 0:
			sc.AsyncPat = -1 // all async
		case 1:
			sc.AsyncPat = 0 // all flushed
		}
		if rng.Intn(3) != 0 {
			sc.CloseAt = 1 + rng.Intn(sc.Senders*sc.PerS)
		}
		return sc
	}
	var cases []sendCase
	for i := 0; i < r.Pick(250, 6000); i++ {
		cases = append(cases, mk("wire", i))
	}
	for i := 0; i < r.Pick(40, 600); i++ {
		cases = append(cases, mk("tcp", i))
	}
	for i := 0; i < r.Pick(30, 400); i++ {
		cases = append(cases, mk("ws", i))
	}
	h.Parallel(len(cases), 8, func(i int) { runSend(r, i, cases[i]) })
	r.Count("send_close_cases", int64(len(cases)))
	r.Sample(map[string]interface{}{"case": cases[0].String()})
	r.Sample(map[string]interface{}{"case": cases[len(cases)-1].String()})

	// D: carrier fault enumeration — every k for each call kind
	nfault := 0
	for _, delay := range []time.Duration{0, 5 * time.Millisecond} {
		for _, op := range []string{"read", "write", "close", "deadline"} {
			for k := 1; k < 60; k++ {
				nfault++
				if !runFault(r, op, k, delay) {
					break // k is beyond the number of calls the sequence makes
				}
				r.NonTrivial(fmt.Sprintf("fault:%s:%d:%v", op, k, delay))
			}
		}
	}
	r.Count("carrier_fault_runs", int64(nfault))
	// E: read timeouts
	for _, kind := range []string{"wire", "tcp", "ws"} {
		for _, d := range []time.Duration{10 * time.Millisecond, 20 * time.Millisecond, 30 * time.Millisecond} {
			for rep := 0; rep < r.Pick(2, 10); rep++ {
				runTimeout(r, kind, d)
			}
		}
	}
	// F: receive error while a send is blocked on a non-reading peer
	nstuck := 0
	for rep := 0; rep < r.Pick(2, 30); rep++ {
		for _, trig := range []string{"read timeout", "garbage from the peer", "oversized packet from the peer"} {
			for _, ns := range []int{1, 3} {
				runStuckSend(r, trig, ns, []time.Duration{0, 5 * time.Millisecond}[(rep+ns)%2], false)
				runStuckSend(r, trig, ns, []time.Duration{0, 5 * time.Millisecond}[(rep+ns)%2], true)
				nstuck++
			}
		}
	}
	r.Count("stuck_send_runs", int64(nstuck))
	_ = websocket.BinaryMessage
	h.Exit(r.Finish(50))
}
