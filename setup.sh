#!/bin/bash
# Offline setup: warm the Go build cache for the monitors (nothing is fetched).
cd "$(dirname "$0")"
export GOFLAGS=-mod=mod GOPROXY=off GOSUMDB=off GOTOOLCHAIN=local
mkdir -p build evidence replays
go build ./internal/... 2>&1 | tail -5
go vet -tags verif ./internal/... >/dev/null 2>&1 || true
exit 0
